"""Obligation groups: which function is enforced against its contract, which callees are
replaced by theirs, and which properties the group serves (DESIGN.md section 6)."""

GROUPS = []
TRUSTED_COMMON = [
    'CBMC 6.11 (C front end, DFCC contract instrumentation, SAT/SMT back ends) and its memory model (objects < 2^55 bytes)',
    'extract/cxx2c.py: rules R1-R19 of DESIGN.md section 4 (C++ object model, virtual dispatch, exception objects are not modelled)',
]
NOT_DECIDED = {}
ASSUMPTIONS = {}

def G(id, props, unit, enforce=None, **kw):
    g = {'id': id, 'props': props if isinstance(props, list) else [props], 'unit': unit, 'enforce': enforce}
    g.update(kw)
    GROUPS.append(g)
    return g

NOEXC = ['normal exit']

# ---- U-BITS
G('bits.IsPowerOf2', ['C19', 'C06'], 'bits', 'IsPowerOf2', reach=NOEXC, what='exact for all 2^32 inputs against popcount==1')
G('bits.Log2OfPowerOf2', ['C19', 'C06'], 'bits', 'Log2OfPowerOf2', reach=NOEXC, what='1<<result == value for all 32 powers')

# ---- U-MEMR  (K_R for MemoryReader)
MEMR_REPLAY = {'driver': 'stream_replay.cpp', 'sources': ['src/Stream/MemoryReader.cpp', 'src/Stream/Reader.cpp', 'src/Stream/ForwardReader.cpp', 'src/Stream/BidirectionalReader.cpp']}
def memr(fn, reach=None, replace=(), **kw):
    G('memr.' + fn, ['C12', 'C13'] if 'Slice' in fn else ['C12'], 'memr', 'MemoryReader_' + fn, replace=list(replace),
      reach=reach if reach is not None else ['normal exit', 'exceptional exit'], replay=dict(MEMR_REPLAY, case='MemoryReader_' + fn), **kw)
memr('ctor', reach=NOEXC)
memr('ReadImplementation')
memr('ReadPartial', reach=NOEXC)
memr('Length', reach=NOEXC)
memr('Position', reach=NOEXC)
memr('Seek'); memr('SeekForward'); memr('SeekBackward')
memr('Slice2')
memr('Slice1', replace=['MemoryReader_Slice2', 'MemoryReader_Position', 'MemoryReader_SeekForward'])
