"""Obligation groups: which function is enforced against its contract, which callees are
replaced by theirs, and which properties the group serves (DESIGN.md section 6)."""

GROUPS = []
TRUSTED_COMMON = [
    'CBMC 6.11 (C front end, DFCC contract instrumentation, SAT/SMT back ends) and its memory model (objects < 2^55 bytes)',
    'extract/cxx2c.py: rules R1-R19 of DESIGN.md section 4 (C++ object model, virtual dispatch, exception objects are not modelled)',
]
NOT_DECIDED = {}
ASSUMPTIONS = {}

RELATIONAL = {}
def REL(unit, fn, kind, type, compare='ALL', props=('C18',), unwind=None, **kw):
    RELATIONAL.setdefault(unit, []).append({'fn': fn, 'kind': kind, 'type': type, 'compare': compare})
    nbytes = kw.pop('nbytes', 64)
    G('%s.rel.%s' % (unit, fn), list(props), unit, None, harness='h2_' + fn, loop_contracts=False, reach=['normal exit'],
      flags=['--unwind', str(nbytes + 2), '--unwinding-assertions'], what='two-run relational check: serialised bytes are a function of the arguments only (uninitialised storage differs between the runs)', **kw)

def G(id, props, unit, enforce=None, **kw):
    g = {'id': id, 'props': props if isinstance(props, list) else [props], 'unit': unit, 'enforce': enforce}
    g.update(kw)
    GROUPS.append(g)
    return g

NOEXC = ['normal exit']

# ---- U-BITS
G('bits.IsPowerOf2', ['C19', 'C06'], 'bits', 'IsPowerOf2', reach=NOEXC, what='exact for all 2^32 inputs against popcount==1')
G('bits.Log2OfPowerOf2', ['C19', 'C06'], 'bits', 'Log2OfPowerOf2', reach=NOEXC, what='1<<result == value for all 32 powers')

# ---- U-MEMR  (K_R for MemoryReader)
MEMR_REPLAY = {'driver': 'stream_replay.cpp', 'sources': ['src/Stream/MemoryReader.cpp', 'src/Stream/Reader.cpp', 'src/Stream/ForwardReader.cpp', 'src/Stream/BidirectionalReader.cpp']}
def memr(fn, reach=None, replace=(), **kw):
    G('memr.' + fn, ['C12', 'C13'] if 'Slice' in fn else ['C12'], 'memr', 'MemoryReader_' + fn, replace=list(replace),
      reach=reach if reach is not None else ['normal exit', 'exceptional exit'], replay=dict(MEMR_REPLAY, case='MemoryReader_' + fn), **kw)
memr('ctor', reach=NOEXC)
memr('ReadImplementation')
memr('ReadPartial', reach=NOEXC)
memr('Length', reach=NOEXC)
memr('Position', reach=NOEXC)
memr('Seek'); memr('SeekForward'); memr('SeekBackward')
memr('Slice2')
memr('Slice1', replace=['MemoryReader_Slice2', 'MemoryReader_Position', 'MemoryReader_SeekForward'])

# ---- U-MEMW (C14: fixed-buffer writer)
def memw(fn, reach=None, replace=()):
    G('memw.' + fn, ['C14'], 'memw', 'MemoryWriter_' + fn, replace=list(replace), reach=reach if reach is not None else ['normal exit', 'exceptional exit'],
      replay=dict(MEMR_REPLAY, case='MemoryWriter_' + fn))
memw('ctor', reach=NOEXC); memw('WriteImplementation'); memw('Length', reach=NOEXC); memw('Position', reach=NOEXC)
memw('Seek'); memw('SeekForward', replace=['MemoryWriter_Seek']); memw('SeekBackward', replace=['MemoryWriter_Seek'])

# ---- U-SLICE (SliceReader<W> |= K_R given W |= K_W)
WS = ['Ws_Read', 'Ws_ReadPartial', 'Ws_Length', 'Ws_Position', 'Ws_Seek', 'Ws_SeekForward', 'Ws_SeekBackward', 'Ws_copy']
def slice_(fn, reach=None, replace=(), props=('C12', 'C13')):
    G('slice.' + fn, list(props), 'slice', 'SliceReader_' + fn, replace=WS + list(replace), reach=reach if reach is not None else ['normal exit', 'exceptional exit'],
      trusted=['K_W (contracts/kr.h): assumed contract of the wrapped stream type W; proved for MemoryReader, assumed for FileReader (std::ifstream)'])
slice_('Initialize', props=('C12', 'C13', 'C05')); slice_('ctor', replace=['SliceReader_Initialize'], props=('C12', 'C13', 'C05')); slice_('copyctor', reach=NOEXC, replace=['SliceReader_Initialize'])
slice_('ReadImplementation'); slice_('ReadPartial', reach=NOEXC, replace=['SliceReader_Position'])
slice_('Length', reach=NOEXC); slice_('Position', reach=NOEXC)
slice_('Seek'); slice_('SeekForward', replace=['SliceReader_Position']); slice_('SeekBackward', replace=['SliceReader_Position'])
slice_('Slice2', replace=['SliceReader_ctor']); slice_('Slice1', replace=['SliceReader_Slice2', 'SliceReader_Position', 'SliceReader_SeekForward'])

# ---- U-BIDI
RD = ['Rd_Read', 'Rd_ReadU32', 'Rd_ReadRec8', 'Rd_ReadRec16', 'Rd_ReadRec24', 'Rd_ReadPartial', 'Rd_Length', 'Rd_Position', 'Rd_Seek', 'Rd_SeekForward', 'Rd_SeekBackward']
WR_TRUST = 'Writer contract (contracts/wr.h): Write appends exactly the bytes handed over or throws appending nothing; proved for MemoryWriter, assumed for FileWriter/std::ofstream and DynamicMemoryWriter/std::vector'
KR_TRUST = 'K_R (contracts/kr.h) as the contract of the abstract Stream::Reader interface: proved for MemoryReader and SliceReader<W>; virtual dispatch bound statically to the contract'
G('bidi.Read', ['C12'], 'bidi', 'Reader_Read', replace=RD, trusted=[KR_TRUST])
G('bidi.Peek', ['C12', 'C09'], 'bidi', 'BidirectionalReader_Peek', replace=RD, trusted=[KR_TRUST])
G('bidi.SeekBeginning', ['C12'], 'bidi', 'BidirectionalReader_SeekBeginning', replace=RD, reach=NOEXC, trusted=[KR_TRUST])
G('bidi.SeekEnd', ['C12'], 'bidi', 'ForwardReader_SeekEnd', replace=RD, reach=NOEXC, trusted=[KR_TRUST])

# --------------------------------------------------------------------------- what is claimed (bin/mkmanifest)
CLAIMS = {}
NOT_APPLICABLE = {}
def claim(pid, text, note):
    CLAIMS[pid] = {'text': text, 'note': note}

claim('C12', 'Every MemoryReader and SliceReader<W> operation is proved against the stream contract K_R (exact bytes, exact advance, atomic refusal, position <= length) for all 64-bit arguments and unbounded lengths; Peek/SeekBeginning/SeekEnd/Read proved over any K_R reader; histories follow by induction over the invariant.',
      'Trusted: CBMC/DFCC, the extraction rules, K_W for the wrapped stream of a slice (proved for MemoryReader, assumed for FileReader/std::ifstream). Typed container/string helpers: see evidence not_decided.')
claim('C13', 'Slice construction, containment (128-bit comparison, no wrap), frame conditions (parent untouched; only the own position assigned) and K_R for SliceReader<W> over an arbitrary K_W parent are proved; nesting follows by induction because a slice itself satisfies K_R.',
      'Trusted: K_W for file-backed parents (std::ifstream), independence of two OS file descriptions.')
claim('C14', 'MemoryWriter operations proved over the full 64-bit domain: a write/seek succeeds iff the mathematical target lies in the buffer, modifies exactly [offset, offset+n) (assigns clause), and otherwise changes nothing.',
      'Trusted: CBMC/DFCC, extraction rules. DynamicMemoryWriter / FileWriter / copy loop: see evidence groups and not_decided.')
claim('C19', 'The comparator is proved (cvc5, quantified first-difference contract, unbounded lengths) to return exactly the lexicographic order of the lower-cased keys and IsEqual exactly key equality; irreflexivity, transitivity and incomparability <=> IsEqual (strict weak order) are proved as lemmas over the comparator contract only; IsPowerOf2 exact for all 2^32 inputs, Log2OfPowerOf2 for all 32 powers; ConvertToUpperInPlace per character.',
      'Trusted: CBMC/cvc5, tolower/toupper in the C locale. Every std::filesystem-based path helper (PathsAreEqual, Append, GetFilename, GetDirectory, ChangeFileExtension, ExtensionMatches) is NOT decided: there is no repository code to put under contract. Strings longer than 2^31 characters are outside the comparator contract.')

# ---- U-MAPH (C16, C07)
def maph(fn, props, reach=NOEXC, replace=(), **kw):
    G('maph.' + fn, props, 'maph', fn, replace=list(replace), reach=reach, replay={'driver': 'map_replay.cpp', 'case': fn}, **kw)
maph('MapHeader_ctor', ['C18', 'C06'])
maph('MapHeader_WidthInTiles', ['C07', 'C16'])
maph('MapHeader_TileCount', ['C07', 'C16'])
maph('MapHeader_VersionTagValid', ['C06'])
maph('Map_ctor', ['C06'])
maph('Map_GetTileIndex', ['C16', 'C06'], timeout=900, what='index == block-order formula and < width*height, widths 2^5..2^10, any 32-bit height')
maph('Map_GetTileMappingIndex', ['C16'], replace=['Map_GetTileIndex'])
maph('Map_GetCellType', ['C16'], replace=['Map_GetTileIndex'])
maph('Map_SetCellType', ['C16'], replace=['Map_GetTileIndex'], reach=['normal exit', 'exceptional exit'])
maph('Map_GetLavaPossible', ['C16'], replace=['Map_GetTileIndex'])
maph('Map_SetLavaPossible', ['C16'], replace=['Map_GetTileIndex'])
maph('Map_GetTilesetIndex', ['C16'], replace=['Map_GetTileMappingIndex'])
maph('Map_GetImageIndex', ['C16'], replace=['Map_GetTileMappingIndex'])
maph('Map_CheckMinVersionTag', ['C06', 'C07'], reach=['normal exit', 'exceptional exit'])
G('maph.lemma_injective_h256', ['C16'], 'maph', None, harness='h_lemma_tileindex_injective', loop_contracts=False, defines=['OP2_HMAX=256'],
  reach=['collision reachable when coordinates are equal'], timeout=600,
  what='L16.1 injectivity of the index formula for widths 2^5..2^10 and heights 1..256 (the domain the property quantifies over; complete for it)')
G('maph.lemma_injective_anyheight', ['C16'], 'maph', None, harness='h_lemma_tileindex_injective', loop_contracts=False, tier='thorough',
  reach=['collision reachable when coordinates are equal'], timeout=1800,
  what='L16.1 injectivity for widths 2^5..2^10 and ANY 32-bit height')
claim('C16', 'GetTileIndex proved equal to the 32-column block-order formula and < width*height for widths 2^5..2^10 and any 32-bit height; the formula is proved injective (quick: heights 1..256, the quantified domain; thorough: any height); every accessor is proved bit-exact against the serialised tile word, setters change exactly the named bits of exactly the addressed tile (ghost-index frame), out-of-range cell types are refused without change.',
      'Widths above 2^10 not decided (nonlinear). Accessors assume the tile\'s mapping index is < |tileMappings| for GetTilesetIndex/GetImageIndex (precondition). CBMC bit-field layout agrees with g++ (checked by the header\'s static_assert on sizeof and by native replay).')

# ---- U-STR (C19 comparator, C01/C02 duplicate detection)
TOLOWER_TRUST = 'tolower/toupper: C locale, key(c) = c+32 for A..Z, for every c in -128..255 (assumed contract, contracts/str.contracts)'
G('str.IsEqual', ['C19', 'C01'], 'str', 'StringUtility_IsEqual', replace=['op2_tolower', 'op2_toupper'], solver='cvc5', reach=NOEXC, timeout=900, trusted=[TOLOWER_TRUST], stage2='OP2_BOUNDED=4', replay={'driver': 'str_replay.cpp', 'case': 'cmp'})
G('str.IsEqualCaseInsensitive', ['C19', 'C01', 'C02', 'C03', 'C18'], 'str', 'StringUtility_IsEqualCaseInsensitive', replace=['op2_tolower', 'op2_toupper'], solver='cvc5', reach=NOEXC, timeout=600, trusted=[TOLOWER_TRUST], stage2='OP2_BOUNDED=4', replay={'driver': 'str_replay.cpp', 'case': 'cmp'})
G('str.ConvertToUpperInPlace', ['C19', 'C17'], 'str', 'StringUtility_ConvertToUpperInPlace', replace=['op2_toupper'], reach=NOEXC, timeout=600, trusted=[TOLOWER_TRUST])

CMP = ['StringUtility_IsEqualCaseInsensitive', 'StringUtility_IsEqual']
G('str.lemma_irreflexive', ['C19'], 'str', None, harness='h_lemma_irreflexive', replace=CMP, solver='cvc5', reach=[], timeout=600, stage2='OP2_BOUNDED=4', flags2=['--unwind', '6'], what='L19.1 over the comparator contract')
G('str.lemma_incomparable', ['C19'], 'str', None, harness='h_lemma_incomparable_is_equal', replace=CMP, solver='cvc5', reach=[], timeout=600, stage2='OP2_BOUNDED=4', flags2=['--unwind', '6'], what='L19.3 incomparability <=> IsEqual; asymmetry')
G('str.lemma_transitive', ['C19'], 'str', None, harness='h_lemma_transitive', replace=CMP, solver='cvc5', reach=[], timeout=600, stage2='OP2_BOUNDED=4', flags2=['--unwind', '6'], what='L19.2 transitivity')

# ---- U-HUFF (C15, C04)
def huff(fn, reach=None):
    G('huff.' + fn, ['C15', 'C04'], 'huff', 'AdaptiveHuffmanTree_' + fn, reach=reach if reach is not None else ['normal exit', 'exceptional exit'],
      what='any tree size (symbolic node count)')
huff('VerifyNodeIndexInBounds'); huff('VerifyNodeDataInBounds'); huff('GetChildNode'); huff('IsLeaf'); huff('GetNodeData')
huff('GetRootNodeIndex', reach=NOEXC); huff('TerminalNodeCount', reach=NOEXC)
HUFF_REPLAY = {'driver': 'huff_replay.cpp', 'case': 'huff'}
def huff_pi(T, tier, timeout=900):
    uw = str(3 * T + 2)
    common = dict(loop_contracts=False, flags=['--unwind', uw, '--unwinding-assertions'], tier=tier, timeout=timeout, pi='T=%d' % T, replay=HUFF_REPLAY)
    G('huff.update_step.T%d' % T, ['C15', 'C04'], 'huff', None, harness='h_huff_update_step', defines=['OP2_T=%d' % T], reach=['normal exit', 'exceptional exit'],
      what='PI(T=%d): from ANY well-formed tree: WF preserved, equals reference update, refusal leaves tree unchanged' % T, **common)
    G('huff.encode_decode.T%d' % T, ['C15'], 'huff', None, harness='h_huff_encode_decode', defines=['OP2_T=%d' % T], reach=['normal exit'],
      what='PI(T=%d): encoder bit string drives the decoder walk to the symbol leaf, from ANY well-formed tree' % T, **common)
    G('huff.ctor.T%d' % T, ['C15'], 'huff', None, harness='h_huff_ctor', defines=['OP2_T=%d' % T], reach=['normal exit'],
      what='constructor establishes WF (T=%d)' % T, **common)
for T_ in (2, 3, 4): huff_pi(T_, 'quick')
for T_ in (5, 6): huff_pi(T_, 'thorough', timeout=3600)
G('huff.ctor.T314', ['C15', 'C04'], 'huff', None, harness='h_huff_ctor', defines=['OP2_T=314'], reach=['normal exit'], loop_contracts=False,
  flags=['--unwind', '950', '--unwinding-assertions', '--max-field-sensitivity-array-size', '2000'], timeout=1800, no_standard_checks=True, what='constructor establishes WF for the 314-symbol tree the format uses (concrete execution inside CBMC; generated pointer checks off, WF of the result asserted)')
claim('C15', 'Inductive step proved from an ARBITRARY well-formed tree (so for all histories) for 2..4 symbols in the quick tier and 5..6 in the thorough tier: UpdateCodeCount preserves the representation invariant WF (full binary prefix code over exactly the symbol set, sibling property), its result equals an independent reference update (Okumura LZHUF), the encoder bit string drives the decoder walk to the symbol leaf, and an update beyond counter capacity or with an out-of-range symbol is refused leaving the tree unchanged. Leaf accessors (GetChildNode, IsLeaf, GetNodeData, Verify*) are proved by contract for any tree size. The constructor is proved to establish WF for T = 2..6 and for T = 314.',
      'PI: the invariant step is proved per fixed symbol count T (loops fully unwound, unwinding assertions on); T = 314 inductive step is NOT decided (out of reach monolithically; a bounded stand-in - one symbolic update from the initial 314-symbol tree - did not finish within one hour on any back end and is not registered). std::vector modelled as a view; allocation failure not modelled.')

# ---- U-BSR (C04: bit reader)
for fn_, rc_ in (('ctor', ['normal exit', 'exceptional exit']), ('ReadNextBit', NOEXC), ('ReadNext8Bits', NOEXC), ('EndOfStream', NOEXC), ('GetBitReadPos', NOEXC)):
    G('bsr.' + fn_, ['C04', 'C05'], 'bsr', 'BitStreamReader_' + fn_, reach=rc_, what='MSB-first bits of the input, 0 beyond the end; any buffer length')

# ---- U-LZ (C04)
BSRC = ['BitStreamReader_ReadNextBit', 'BitStreamReader_ReadNext8Bits', 'BitStreamReader_EndOfStream']
HTC = ['AdaptiveHuffmanTree_GetRootNodeIndex', 'AdaptiveHuffmanTree_IsLeaf', 'AdaptiveHuffmanTree_GetChildNode', 'AdaptiveHuffmanTree_GetNodeData', 'AdaptiveHuffmanTree_UpdateCodeCount', 'AdaptiveHuffmanTree_make']
LZ_TRUST = ['ghost g_tree_wf is by definition the quantified structural tree invariant (unfolded only in GetNextCode)', 'UpdateCodeCount preserves the structural tree invariant for the 314-symbol tree (assumed contract in contracts/lz.contracts; proved by unit huff only for T <= 6)',
            'memcpy/memset: assumed contracts with ghost-address postcondition (contracts/lz.contracts)']
def lz(fn, reach=NOEXC, replace=(), props=('C04',), **kw):
    G('lz.' + fn, list(props), 'lz', 'HuffLZ_' + fn, replace=BSRC + HTC + ['op2_memcpy', 'op2_memset'] + list(replace), reach=reach, trusted=LZ_TRUST, **kw)
lz('GetOffsetModifiers', what='code arithmetic == LZHUF d_code/d_len tables for all 256 byte values')
lz('WriteCharToBuffer')
lz('GetRepeatOffset', replace=['HuffLZ_GetOffsetModifiers'], flags=['--unwind', '8', '--unwinding-assertions'], loop_contracts=False, timeout=900,
   what='result < 4096, bit position monotone, reader invariant kept')
G('lz.lemma_repeat_offset_ref', ['C04'], 'lz', None, harness='h_lemma_repeat_offset_ref', replace=BSRC + ['HuffLZ_GetOffsetModifiers'], reach=['maximal distance reachable'],
  flags=['--unwind', '9', '--unwinding-assertions'], loop_contracts=False, timeout=900, what='GetRepeatOffset == reference DecodePosition (LZHUF) over the reference bit sequence, any buffer, any bit position')
lz('GetNextCode', solver='cvc5', timeout=900, defines=['OP2_TREE_FORALL'], what='tree walk terminates, stays in the arrays, returns a symbol < 314 (needs the quantified structural tree invariant)')
lz('DecompressCode', reach=['normal exit', 'exceptional exit'], replace=['HuffLZ_GetNextCode', 'HuffLZ_GetRepeatOffset', 'HuffLZ_WriteCharToBuffer'], timeout=900,
   what='one code appends 1..60 bytes, never moves the read index; refused update propagates without writing')
lz('FillDecompressBuffer', reach=['normal exit', 'exceptional exit'], replace=['HuffLZ_DecompressCode'], timeout=900,
   what='queue invariant: unread data never overwritten (DecompressCode precondition unread <= 4035 at every call), terminates')
lz('CopyAvailableData', timeout=900, what='delivers min(size, unread) oldest bytes in order, advances the read index by the count')
lz('GetInternalBuffer', reach=['normal exit', 'exceptional exit'], replace=['HuffLZ_FillDecompressBuffer'], timeout=900)
lz('GetData', reach=['normal exit', 'exceptional exit'], replace=['HuffLZ_FillDecompressBuffer', 'HuffLZ_CopyAvailableData_U'], props=('C04', 'C05'), timeout=900,
   what='draining through GetData for any request size: memory safe, terminates, delivers the requested count unless the stream ended')
lz('InitializeDecompressBuffer', props=('C04', 'C18'), what='every byte of the 4096-byte window is a space after initialisation (no uninitialised window byte can reach the output)')

# ---- U-BMPH (C08, C11, C09, C18)
BMP_REPLAY = {'driver': 'bmp_replay.cpp', 'case': 'bmp'}
def bmph(fn, props, reach=NOEXC, replace=(), replay=None, **kw):
    G('bmph.' + fn, props, 'bmph', fn, replace=list(replace), reach=reach, replay=replay or BMP_REPLAY, **kw)
EXC2 = ['normal exit', 'exceptional exit']
bmph('ImageHeader_IsValidBitCount', ['C08', 'C11']); bmph('ImageHeader_IsIndexedImage', ['C08', 'C11'])
bmph('BitmapFile_CreateIndexed', ['C08', 'C11', 'C09'], reach=EXC2, replace=['BitmapFile_ctor0', 'vec_Color_resize', 'vec_u8_resize', 'ImageHeader_Create', 'ImageHeader_CalcMaxIndexedPaletteSize0', 'ImageHeader_CalculatePitch0', 'BmpHeader_Create'],
     flags=['--object-bits', '12'], timeout=600, trusted=['BitmapFile default constructor and vector resize as assumed abstract contracts'],
     what='CreateIndexed(bitCount, width, height): no undefined arithmetic for any height; headers, palette size and pixel size agree')
BR_T = [KR_TRUST, 'vector clear / resize and the BitmapFile default constructor as assumed abstract contracts']
BR_R = ['Rd_Read', 'Rd_Length', 'vec_Color_clear', 'vec_u8_clear', 'vec_Color_resize', 'vec_u8_resize', 'BitmapFile_ctor0']
bmph('BitmapFile_ReadBmpHeader', ['C08', 'C11'], reach=EXC2, replace=BR_R + ['BmpHeader_VerifyFileSignature'], trusted=BR_T)
bmph('BitmapFile_ReadImageHeader', ['C08', 'C11'], reach=EXC2, replace=BR_R + ['ImageHeader_Validate', 'BitmapFile_VerifyIndexedImageForSerialization'], trusted=BR_T)
bmph('BitmapFile_ReadPalette', ['C08', 'C11'], reach=EXC2, replace=BR_R + ['ImageHeader_CalcMaxIndexedPaletteSize0'], trusted=BR_T, flags=['--object-bits', '12'])
bmph('BitmapFile_ReadPixels', ['C08', 'C11'], reach=EXC2, replace=BR_R + ['BitmapFile_VerifyPixelSizeMatchesImageDimensionsWithPitch'], trusted=BR_T, flags=['--object-bits', '12'])
bmph('BitmapFile_ReadIndexed', ['C08', 'C11', 'C09'], reach=EXC2, replace=BR_R + ['BitmapFile_ReadBmpHeader', 'BitmapFile_ReadImageHeader', 'BitmapFile_ReadPalette', 'BitmapFile_ReadPixels'], trusted=BR_T, flags=['--object-bits', '12'], timeout=600,
     what='indexed bitmap loader on arbitrary bytes: safe, short inputs refused, exact consumption, result satisfies the object invariant I_B')
bmph('BitmapFile_InvertScanLines', ['C08', 'C11'], reach=EXC2, replace=['vec_u8_ctor0', 'vec_u8_reserve', 'vec_u8_insert_range', 'ImageHeader_CalculatePitch0', 'BitmapFile_AbsoluteHeight'], loop_contracts=False,
     flags=['--unwind', '5', '--unwinding-assertions', '--object-bits', '12'], bounded='bitmaps of at most 3 rows (width up to 2^20, depth and pixel bytes symbolic)', timeout=600,
     trusted=['std::vector<uint8_t> default construction, reserve and insert(end(), first, last) as assumed abstract contracts'],
     what='bounded stand-in: InvertScanLines negates the height, keeps the pixel count and reverses the rows byte for byte')
bmph('BitmapFile_WriteHeaders', ['C08'], reach=EXC2, replace=['Wr_Write', 'ImageHeader_CalculatePitch', 'BmpHeader_Create', 'ImageHeader_Create'], trusted=[WR_TRUST], timeout=600, flags=['--object-bits', '12'],
     what='regenerated bitmap headers: file size and pixel offset fields byte by byte, used-colour count 0, oversize refused with nothing written')
bmph('BitmapFile_WriteIndexed', ['C08'], reach=EXC2, replace=['Wr_Write', 'vec_Color_resize_fill', 'ImageHeader_CalcMaxIndexedPaletteSize', 'BitmapFile_VerifyIndexedImageForSerialization', 'BitmapFile_VerifyIndexedPaletteSizeDoesNotExceedBitCount',
     'BitmapFile_VerifyPixelSizeMatchesImageDimensionsWithPitch', 'BitmapFile_WriteHeaders', 'BitmapFile_WritePixels'], trusted=[WR_TRUST, 'vector copy / resize(n, value) as assumed abstract contracts'], timeout=600, flags=['--object-bits', '12'],
     bounded='bitmaps of at most 3 rows (WritePixels is a bounded group)', replay={'driver': 'bmpw_replay.cpp', 'case': 'WriteIndexed'},
     what='bounded stand-in: the written stream has the length a reader of the written header expects: 54 + 4 * 2^bitCount + pitch * |height|')
bmph('BitmapFile_WritePixels', ['C08'], reach=EXC2, replace=['Wr_Write', 'vec_u8_ctor_fill', 'ImageHeader_CalculatePitch', 'ImageHeader_CalcPixelByteWidth'], loop_contracts=False, flags=['--unwind', '5', '--unwinding-assertions', '--object-bits', '12'],
     bounded='bitmaps of at most 3 rows (width, depth and pixel bytes symbolic)', timeout=600, trusted=[WR_TRUST, 'std::vector<uint8_t>(n, 0) as an assumed abstract contract'],
     what='bounded stand-in: pixel section = rows padded with zeros to the pitch, total pitch * |height| bytes')
bmph('ImageHeader_VerifyValidBitCount', ['C08', 'C11'], reach=EXC2, replace=['ImageHeader_IsValidBitCount'])
bmph('ImageHeader_CalcPixelByteWidth', ['C08', 'C11']); bmph('ImageHeader_CalculatePitch', ['C08', 'C11'], replace=['ImageHeader_CalcPixelByteWidth'])
bmph('ImageHeader_CalcMaxIndexedPaletteSize', ['C08', 'C11'], reach=EXC2, replace=['ImageHeader_IsIndexedImage'])
bmph('ImageHeader_CalcMaxIndexedPaletteSize0', ['C08', 'C11'], reach=EXC2, replace=['ImageHeader_CalcMaxIndexedPaletteSize'])
bmph('ImageHeader_Create', ['C08', 'C18'], reach=EXC2, replace=['ImageHeader_VerifyValidBitCount'])
bmph('ImageHeader_Validate', ['C08', 'C11'], reach=EXC2, replace=['ImageHeader_VerifyValidBitCount', 'ImageHeader_CalcMaxIndexedPaletteSize0'])
bmph('BmpHeader_Create', ['C08', 'C18']); bmph('BmpHeader_IsValidFileSignature', ['C08', 'C11'])
bmph('BmpHeader_VerifyFileSignature', ['C08', 'C11'], reach=EXC2, replace=['BmpHeader_IsValidFileSignature'])
bmph('BitmapFile_VerifyIndexedPaletteSizeDoesNotExceedBitCount', ['C08', 'C11'], reach=EXC2, replace=['ImageHeader_CalcMaxIndexedPaletteSize'])
bmph('BitmapFile_VerifyPixelSizeMatchesImageDimensionsWithPitch', ['C08', 'C11'], reach=EXC2, timeout=900)
bmph('BitmapFile_VerifyIndexedImageForSerialization', ['C08', 'C11'], reach=EXC2, replace=['ImageHeader_IsIndexedImage'])
bmph('BitmapFile_GetScanLineOrientation', ['C08', 'C09']); bmph('BitmapFile_AbsoluteHeight', ['C08', 'C11'])
bmph('Color_SwapRedAndBlue', ['C08', 'C09', 'C10'])

# ---- U-SPRH (C09, C10, C11, C18)
def sprh(fn, props, reach=NOEXC, replace=(), **kw):
    G('sprh.' + fn, props, 'sprh', fn, replace=list(replace), reach=reach, replay={'driver': 'spr_replay.cpp', 'case': fn}, **kw)
sprh('SectionHeader_ctor0', ['C10', 'C18']); sprh('SectionHeader_ctor2', ['C09', 'C10', 'C18'])
sprh('SectionHeader_Validate', ['C10', 'C11'], reach=EXC2); sprh('SectionHeader_TotalLength', ['C10'])
sprh('TilesetHeader_Create', ['C09', 'C18'], replace=['SectionHeader_ctor2']); sprh('TilesetHeader_Validate', ['C09', 'C11'], reach=EXC2)
sprh('PpalHeader_Create', ['C09', 'C18'], replace=['SectionHeader_ctor2']); sprh('PpalHeader_Validate', ['C09', 'C11'], reach=EXC2)
sprh('Tileset_ValidateFileSignatureHeader', ['C09', 'C11'], reach=EXC2); sprh('Tileset_ValidatePaletteHeader', ['C09', 'C11'], reach=EXC2)
sprh('Tileset_CalculatePixelHeaderLength', ['C09']); sprh('Tileset_ValidatePixelHeader', ['C09', 'C11'], reach=EXC2, replace=['Tileset_CalculatePixelHeaderLength'])
sprh('Tileset_CalculatePbmpSectionSize', ['C09'], replace=['Tileset_CalculatePixelHeaderLength']); sprh('Tileset_ValidateTileset', ['C09', 'C11'], reach=EXC2)
sprh('Tileset_ReadCustomTileset', ['C09', 'C11'], reach=EXC2, plain_ui=True, replace=RD + ['SectionHeader_ctor0', 'Tileset_ValidateFileSignatureHeader', 'TilesetHeader_Validate', 'PpalHeader_Validate', 'Tileset_ValidatePaletteHeader', 'Tileset_ValidatePixelHeader',
     'BitmapFile_CreateIndexed', 'BitmapFile_SwapRedAndBlue', 'Tileset_ValidateTileset'], flags=['--object-bits', '12'], timeout=900,
     trusted=[KR_TRUST, 'BitmapFile::CreateIndexed by the contract proved in group bmph.BitmapFile_CreateIndexed; BitmapFile::SwapRedAndBlue as an assumed frame contract'],
     what='custom tileset loader on arbitrary bytes: safe, short inputs refused, exact consumption, result is a valid top-down tileset picture')
sprh('Tileset_PeekIsCustomTileset', ['C09', 'C11'], reach=EXC2, replace=['Rd_PeekTag', 'Rd_Read', 'Rd_SeekBeginning'], trusted=[KR_TRUST, 'BidirectionalReader::Peek by the contract proved in group bidi.Peek'],
     what='detector leaves the stream where it stands (any position) and answers exactly "next four bytes are PBMP"')
sprh('Tileset_SwapPaletteRedAndBlue', ['C09'], replace=['Color_SwapRedAndBlue'], what='every entry (arbitrary index) of a palette of any length has red and blue exchanged, green and alpha kept')
sprh('Tileset_WriteCustomTileset', ['C09', 'C18'], reach=EXC2, replace=['Wr_Write', 'Tileset_ValidateTileset', 'BitmapFile_GetScanLineOrientation', 'BitmapFile_InvertScanLines', 'BitmapFile_AbsoluteHeight', 'Tileset_CalculatePbmpSectionSize',
     'Tileset_CalculatePixelHeaderLength', 'TilesetHeader_Create', 'PpalHeader_Create', 'Tileset_SwapPaletteRedAndBlue', 'SectionHeader_ctor2'], flags=['--object-bits', '12'], timeout=900,
     trusted=[WR_TRUST, 'BitmapFile::InvertScanLines by an abstract contract (negates the height, same pixel count; decided for <= 3 rows by group bmph.BitmapFile_InvertScanLines)', 'SwapPaletteRedAndBlue by its contract (group sprh.Tileset_SwapPaletteRedAndBlue)'],
     what='custom tileset writer vs the format description: total length, PBMP length, pixel height, pixel section length, palette entry gi with red/blue exchanged; non-tilesets refused with nothing written')
sprh('PaletteHeader_ctor', ['C10', 'C18'], replace=['SectionHeader_ctor0'])
sprh('PaletteHeader_CreatePaletteHeader', ['C10', 'C18'], replace=['SectionHeader_ctor2', 'PaletteHeader_ctor'])
sprh('PaletteHeader_Validate', ['C10', 'C11'], reach=EXC2, replace=['SectionHeader_Validate', 'SectionHeader_TotalLength'])
sprh('ArtFile_VerifyImageIndexInBounds', ['C11'], reach=EXC2)
AW_T = [WR_TRUST, 'the steps of ArtFile::Write by use-mode framing contracts (ghost step counter, ghost lengths); CountFrames and WriteAnimation as assumed abstract contracts; Animation is an opaque placeholder in the unit']
sprh('ArtFile_Write', ['C10', 'C20'], reach=EXC2, replace=['ArtFile_ValidateImageMetadata_U', 'ArtFile_WritePalettes_U', 'Writer_WriteSized_u32_vec_ImageMeta', 'ArtFile_WriteAnimations_U'], trusted=AW_T,
     what='PRT writer pipeline: validation first (invalid table writes nothing), then palettes, image table, animations; total length = sum of the sections')
sprh('ArtFile_WriteAnimations', ['C10', 'C20'], reach=EXC2, replace=['Wr_Write', 'ArtFile_CountFrames_U', 'ArtFile_WriteAnimation_U'], trusted=AW_T, flags=['--object-bits', '12'], timeout=600,
     what='animation section header: animation count and the three CountFrames totals as the four leading 32-bit words; counts above 2^32 - 1 refused')
RA_R = RD + ['Rd_ReadU32T', 'vec_Animation_resize', 'ArtFile_ReadAnimation_U', 'ArtFile_VerifyCountsMatchHeader_U']
RA_T = [KR_TRUST, 'ReadAnimation, VerifyCountsMatchHeader (CountFrames) and vector resize as assumed abstract contracts; Animation is an opaque placeholder in this unit (only moved)']
sprh('ArtFile_ReadAnimations', ['C10', 'C11'], reach=EXC2, replace=RA_R, trusted=RA_T, defines=['OP2_RA_LIGHT'], flags=['--object-bits', '12'], timeout=600,
     what='animation section on arbitrary bytes: memory safe (all generated checks); every normal return has run the count verification')
G('sprh.ArtFile_ReadAnimations.content', ['C10', 'C11'], 'sprh', 'ArtFile_ReadAnimations', reach=EXC2, replace=RA_R, trusted=RA_T + ['generated pointer checks are OFF in this group (decided by sprh.ArtFile_ReadAnimations on the same extracted body)'],
  flags=['--object-bits', '12'], timeout=600, no_standard_checks=True, what='the count verification receives exactly the totals the section header announces; the table has the announced number of entries')
sprh('ArtFile_ValidateImageMetadata', ['C10', 'C11'], reach=EXC2)
sprh('ArtFile_Read', ['C10', 'C11'], reach=EXC2, replace=['ArtFile_ReadPalette_U', 'ArtFile_ReadImageMetadata_U', 'ArtFile_ReadAnimations_U'], timeout=300,
     trusted=[KR_TRUST, 'the three section readers by use-mode framing contracts (ghost step counter); ReadPalette is not decided; ArtFile default construction (vectors) is outside the extractor'],
     what='PRT reader pipeline: palettes, image table (validated against those palettes), animations (totals verified), in this order on every normal return')
# ---- U-SPRA (one animation record, real Animation struct)
SPRA_T = ['ReadFrame / WriteFrame by the contracts proved in unit sprh (use mode, projected); the layer vector of a frame by the assumed vector model; vector<Frame>::resize and the size-prefixed read / write of the unknown container as assumed framing contracts']
G('spra.ArtFile_ReadAnimation', ['C10', 'C11'], 'spra', 'ArtFile_ReadAnimation', reach=EXC2, replace=['Rd_Read', 'Rd_ReadU32T', 'vec_Frame_resize', 'ArtFile_ReadFrame', 'Reader_ReadSized_u32_vec_UnknownContainer'], trusted=[KR_TRUST] + SPRA_T,
  flags=['--object-bits', '12'], timeout=600, what='animation record on arbitrary bytes: memory safe, stream stays valid and never moves backwards, frame table has exactly the announced number of entries, unknown words as in the file')
G('spra.ArtFile_WriteAnimation', ['C10', 'C20'], 'spra', 'ArtFile_WriteAnimation', reach=EXC2, replace=['Wr_Write', 'ArtFile_WriteFrame', 'Writer_WriteSized_u32_vec_UnknownContainer'], trusted=[WR_TRUST] + SPRA_T,
  flags=['--object-bits', '12'], timeout=600, what='animation record writer: fixed part and little-endian frame count first, frame tables / containers above 2^32 - 1 refused, earlier output untouched')
sprh('ArtFile_VerifyCountsMatchHeader', ['C10', 'C11'], reach=EXC2, replace=['ArtFile_CountFrames_U'], trusted=['CountFrames as an assumed abstract contract (its totals are ghosts)'],
     what='count verification: accepted iff the frame, layer and unknown totals CountFrames computes all equal the totals handed in')
sprh('ArtFile_ReadImageMetadata', ['C10', 'C11'], reach=EXC2, replace=['Reader_ReadSized_u32_vec_ImageMeta', 'ArtFile_ValidateImageMetadata_R'],
     trusted=[KR_TRUST, 'Read<uint32_t>(vector<ImageMeta>) as an assumed framing contract; ValidateImageMetadata by its ghost outcome (proved in group sprh.ArtFile_ValidateImageMetadata)'],
     what='image table on arbitrary bytes: every normal return has validated the table just read; stream stays valid')

# ---- C18: relational (two-run) determinism checks of every record constructor
REL('maph', 'MapHeader_ctor', 'ctor', 'MapHeader', nbytes=20)
REL('maph', 'Map_ctor', 'ctor', 'Map', compare=['versionTag', 'isSavedGame', 'widthInTiles', 'heightInTiles', 'clipRect.x1', 'clipRect.y1', 'clipRect.x2', 'clipRect.y2',
                                                  'tiles.size', 'tilesetSources.size', 'tileMappings.size', 'terrainTypes.size', 'tileGroups.size'],
    replay={'driver': 'map_replay.cpp', 'case': 'Map_ctor'})
REL('bmph', 'ImageHeader_Create', 'value', 'ImageHeader', nbytes=40)
REL('bmph', 'BmpHeader_Create', 'value', 'BmpHeader', nbytes=14)
REL('sprh', 'SectionHeader_ctor2', 'ctor', 'SectionHeader', nbytes=8)
REL('sprh', 'TilesetHeader_Create', 'value', 'TilesetHeader', nbytes=28)
REL('sprh', 'PpalHeader_Create', 'value', 'PpalHeader', nbytes=20)
REL('sprh', 'PaletteHeader_CreatePaletteHeader', 'value', 'PaletteHeader', nbytes=28)

claim('C08', 'Bitmap geometry proved over the full 32-bit domain against an independent integer spec: CalcPixelByteWidth = ceil(w*bpp/8), CalculatePitch = smallest multiple of 4 >= row bytes, the pixel-size check accepts exactly pitch*|height| bytes and refuses negative widths and height INT32_MIN; ImageHeader::Validate / Create, BmpHeader::Create / signature checks, palette-size check and AbsoluteHeight proved by contract; CreateIndexed(bitCount, width, height) proved free of undefined arithmetic for every height (after fix D20: INT32_MIN refused) with headers, palette size and pixel size in agreement; the indexed reader (ReadBmpHeader, ReadImageHeader, ReadPalette, ReadPixels, ReadIndexed) proved on arbitrary bytes: safe, inputs shorter than the headers refused, exact consumption 54 + 4*|palette| + |pixels|, and every returned object satisfies the invariant I_B (non-negative width, height other than INT32_MIN, |pixels| = pitch*|height|, palette within the depth); WriteHeaders proved: file size and pixel offset fields byte by byte, used-colour count 0, oversize refused with nothing written. Bounded stand-ins (<= 3 rows, width/depth/pixels symbolic): InvertScanLines negates the height, keeps the pixel count and reverses the rows byte for byte; WritePixels writes rows padded with zeros to the pitch, pitch*|height| bytes in total; WriteIndexed emits exactly the stream a reader of the written header expects (54 + 4*2^bitCount + pitch*|height|) - this found and fixed defect D18 (partial palettes).',
      'NOT decided: the 4- and 5-argument CreateIndexed overloads, pixel content through write + read, flips of more than 3 rows (and hence "twice restores the original" beyond that). ASSUMED: vector resize / construction / reserve / insert(end(), first, last), BitmapFile default constructor.')
claim('C09', 'Custom tileset header constants and validators proved against an independent description of the format (PBMP / head 0x14, tag count 2, width 32, depth 8, flags 8 / PPAL 1048, head 4, tag count 1 / data 1024 / data 32*h): TilesetHeader::Create/Validate, PpalHeader::Create/Validate, the three section validators, CalculatePixelHeaderLength, CalculatePbmpSectionSize, ValidateTileset (8 bit, width 32, height multiple of 32 in either orientation); Peek proved not to move the position (K_R); PeekIsCustomTileset proved to leave the stream where it stands at ANY position and to answer exactly "next four bytes are PBMP"; WriteCustomTileset proved against the format description (total length; PBMP length, pixel height and pixel-section length byte by byte; palette entry gi with red/blue exchanged; non-tilesets refused with nothing written); SwapPaletteRedAndBlue proved for every entry of a palette of any length; ReadCustomTileset proved on arbitrary bytes: memory safe, no undefined arithmetic (after fix D20), short inputs refused, exact consumption 1096 + |pixels|, result 8 bit / 32 wide / height a multiple of 32 / 256 colours / 32*|height| pixel bytes.',
      'ASSUMED: BitmapFile::InvertScanLines (negates height, same pixel count), BitmapFile::SwapRedAndBlue (frame). NOT decided: pixel and palette CONTENT through read and write (the picture round trip), orientation of the loaded picture for headers announcing more than 2^31 rows, tilesets of more than 2^27 - 64 rows (4 GiB; the 32-bit length fields wrap and the writer does not refuse). One trusted constant: PBMP section length 1068 + 32*h cannot be confirmed against the game offline.')
claim('C10', 'PRT cross-field rule check (ValidateImageMetadata: scan line = width rounded up to 4, palette index names an existing palette) proved with a loop contract for any number of images; canonical palette header (PPAL 1048 / head 4 / 1 / data 1024) and its validator proved; SectionHeader constructors/validator proved; ReadFrame / WriteFrame proved against the frame grammar for every flag combination and count; ReadAnimations proved memory safe on arbitrary bytes and to run the count verification on EVERY normal return with exactly the totals the section header announces (also for files without animations); ArtFile::Write proved to validate the image table BEFORE anything is written and to emit palettes, the size-prefixed image table and the animation section in the order the reader consumes them; WriteAnimations proved to start the section with the animation count and the three CountFrames totals (the words the reader re-computes and compares) and to refuse counts above 2^32 - 1. Record level (unit spra, REAL Animation struct): ReadAnimation proved memory safe on arbitrary bytes, frame table with exactly the announced number of entries, the two unknown words as in the file, stream valid; WriteAnimation proved to start with the fixed part and the little-endian frame count, to refuse frame tables / unknown containers above 2^32 - 1, never to alter earlier output, with its length bounded by 40 + 1024 * frames + 16 * container. VerifyCountsMatchHeader proved to accept iff all three totals CountFrames computes equal the totals handed in; ReadImageMetadata proved to validate the table it has just read on every normal return (validation before the read, or skipped, is refuted); ArtFile::Read(Reader&) proved to run palettes -> image table -> animations in this order, a normal return having validated the image table against the palettes already read and verified the animation totals.',
      'ASSUMED: WritePalettes, CountFrames (totals are ghosts), vector resize, size-prefixed read/write of vector<ImageMeta> / vector<UnknownContainer> (framing contracts); the record-level contracts of ReadAnimation / WriteAnimation are proved in unit spra and bound by inspection to the opaque placeholder used in unit sprh. NOT decided: CountFrames arithmetic, palette channel swap on read/write (ReadPalette: two attempts, see DESIGN 11.2), structure round trip.')
claim('C11', 'Validators that guard the loaders are proved total and exact (every header validator throws iff a checked field deviates; image index check refuses index >= count; pixel-size check refuses negative width / INT32_MIN height); all with CBMC memory-safety and arithmetic checks on. Loader bodies proved on arbitrary bytes: ReadCustomTileset (safe, exact consumption, result satisfies the tileset invariant; found and fixed D20: abs(INT32_MIN) reachable from a 1096-byte file), BitmapFile::ReadIndexed and its four steps (result satisfies I_B), PeekIsCustomTileset, ArtFile::ReadFrame, ArtFile::ReadAnimation (real Animation struct, unit spra), ArtFile::ReadAnimations, ArtFile::ReadImageMetadata (validation of the table just read on every normal return), ArtFile::VerifyCountsMatchHeader (exact), the ArtFile::Read pipeline order, BitmapFile::CreateIndexed for every height.',
      'NOT decided: ArtFile::ReadPalette body (two attempts, DESIGN 11.2), SpriteLoader::ExtractImage (shared_ptr / chained temporaries: outside the extractor), follow-up operations InvertScanLines / WriteIndexed on loaded objects; resource exhaustion.')
claim('C18', 'Two-run relational checks (uninitialised storage is independent nondeterministic data in each run) prove that every byte of each record built by the record constructors is determined by the arguments: MapHeader, Map (all serialised members incl. clipRect), ImageHeader::Create, BmpHeader::Create, SectionHeader, TilesetHeader::Create, PpalHeader::Create, PaletteHeader::CreatePaletteHeader.',
      'NOT decided yet: VOL/CLM record constructors, partially-assigning parsers (ReadFrame, ReadTilesetSources), writers byte-exact postconditions; input order / path spelling (std::sort, std::filesystem).')
NOT_DECIDED.update({
 'C08': ['CreateIndexed 4/5-argument overloads, pixel content through write + read', 'InvertScanLines / WritePixels / WriteIndexed: bounded (<= 3 rows)'],
 'C09': ['pixel/palette content through read and write (picture round trip)', 'tilesets above 2^27 - 64 rows', 'PBMP length constant vs the game (trusted)'],
 'C10': ['CountFrames arithmetic, palette swap on read/write (ReadPalette, WritePalettes), structure round trip'],
 'C11': ['ArtFile::ReadPalette body, SpriteLoader::ExtractImage', 'follow-up operations on loaded objects; resource exhaustion'],
 'C12': ['typed container/string helpers of Reader.h (Read(container&), Read<SizeType>, ReadNullTerminatedString)', 'FileReader against the std::ifstream model'],
 'C13': ['independence of two OS file descriptions (assumed)', 'archive member streams'],
 'C14': ['DynamicMemoryWriter, Write<SizeType>, Write(Reader&) copy loop, FileWriter::TranslateFlags'],
 'C15': ['inductive step for T = 314 (out of reach monolithically); bounded stand-in only'],
 'C16': ['widths above 2^10'],
 'C18': ['VOL/CLM records, parsers with partially assigned locals, writer byte-exactness, input order and path spelling'],
 'C19': ['every std::filesystem-based helper: PathsAreEqual laws, Append/GetFilename/GetDirectory/ChangeFileExtension/ExtensionMatches'],
})

# ---- U-WRT (C14, C20, C01, C03: writer helpers over the abstract stream contracts)
G('wrt.Write', ['C14'], 'wrt', 'Writer_Write', replace=['Wr_WriteImplementation'], trusted=[WR_TRUST])
G('wrt.WriteReader', ['C14', 'C01', 'C03'], 'wrt', 'Writer_WriteReader', replace=['Writer_Write', 'Rd_ReadPartial'], trusted=[WR_TRUST, KR_TRUST], timeout=900,
  what='copy loop: exactly the remaining bytes, in order, any source length, ANY chunk size 1..2^20 (symbolic)')
for tag_ in ('u32', 'u16', 'u8', 'i16', 'i8'):
    G('wrt.WriteSized_' + tag_, ['C14', 'C20'], 'wrt', 'Writer_WriteSized_%s_vec_u8' % tag_, replace=['Writer_Write'], trusted=[WR_TRUST], reach=['normal exit', 'exceptional exit'],
      what='Write<%s>(vector<uint8_t>): refused iff the size exceeds the prefix type, else little-endian prefix then data' % tag_)

# ---- U-DYNW (C14: growing writer over the assumed std::vector model)
VEC_TRUST = 'std::vector<uint8_t>::resize/reserve: assumed contracts of contracts/vecmodel.h (prefix preserved, value/zero fill, fails beyond max_size, may fail on allocation)'
for fn_, rc_ in (('WriteImplementation', EXC2), ('Length', NOEXC), ('Position', NOEXC), ('SeekForward', EXC2), ('SeekBackward', EXC2), ('Seek', EXC2), ('GetReader', NOEXC)):
    G('dynw.' + fn_, ['C14'], 'dynw', 'DynamicMemoryWriter_' + fn_, replace=['vec_u8_resize', 'vec_u8_resize_fill', 'vec_u8_reserve', 'MemoryReader_ctor'], force_replace=(['MemoryReader_ctor'] if fn_ == 'GetReader' else []), reach=rc_, trusted=[VEC_TRUST], timeout=600)

# ---- U-FILEW (C14: open flags)
G('filew.TranslateFlags', ['C14'], 'filew', 'FileWriter_TranslateFlags', replace=['XFile_PathExists'], reach=EXC2, replay={'driver': 'filew_replay.cpp', 'case': 'flags'},
  trusted=['C++ open-mode table and libstdc++ openmode values (contracts/filew.contracts); XFile::PathExists as an uninterpreted deterministic predicate'],
  what='all 16 flag combinations x file exists/does not exist')

# ---- U-VOLW (C01, C02, C20, C18)
VOL_TRUST = ['std::vector<IndexEntry>::push_back, OpenAllInputFiles (stream j has length S_j), XFile::PathsAreEqual, FileWriter constructor: assumed contracts in contracts/volw.contracts',
             'format description carried by ghost arrays satisfying the layout recurrences (spec domain: <= 65536 members, sizes <= 2^40, name lengths <= 2^32)']
G('volw.SectionHeader_ctor3', ['C02', 'C18', 'C01'], 'volw', 'VolSectionHeader_ctor3', reach=NOEXC, what='8 serialised bytes: tag, length in bits 0..30, padding flag in bit 31')
G('volw.fileCount', ['C01'], 'volw', 'CreateVolumeInfo_fileCount', reach=NOEXC)
G('volw.WriteVolume', ['C01', 'C20'], 'volw', 'VolFile_WriteVolume', reach=EXC2, replace=['XFile_PathsAreEqual', 'FileWriter_ctor', 'VolFile_WriteHeader', 'VolFile_WriteFiles'],
  trusted=['XFile::PathsAreEqual as an uninterpreted deterministic relation (ghost value on one arbitrary pair)', 'WriteHeader/WriteFiles by frame-only contracts (they write through the writer and advance the input readers; their layout is decided by the bounded groups)',
           'FileWriter constructor = the point where the destination is created/truncated (ghost g_dest_opened)'],
  what='output path equal to an input (any member count, arbitrary index) is refused before the destination file is created')
G('volw.CreateArchive', ['C01', 'C20', 'C02'], 'volw', 'VolFile_CreateArchive', reach=EXC2, replace=['op2_sort_by_ComparePathFilenames', 'CreateVolumeInfo_ctor', 'ArchiveFile_GetNamesFromPaths', 'ArchiveFile_VerifySortedContainerHasNoDuplicateNames', 'VolFile_PrepareHeader_U', 'VolFile_WriteVolume_U'],
  trusted=['std::sort (permutes), GetNamesFromPaths, vector copy-assignment and the default constructor as assumed abstract contracts; PrepareHeader / WriteVolume / the duplicate check by use-mode framing contracts whose preconditions carry the required order (their own behaviour: groups volw.*, arch.VerifySortedNoDuplicates)'],
  what='packing pipeline order for any file list: names of the sorted list are checked for duplicates, then inputs are prepared, then the destination is created; every refusal precedes creation of the destination')
G('volw.PrepareHeader.bounded', ['C20', 'C01', 'C02'], 'volw', None, harness='h_vol_prepare_bounded', defines=['OP2_VOLN=3'], loop_contracts=False, reach=EXC2,
  flags=['--unwind', '6', '--unwinding-assertions', '--object-bits', '12'], timeout=900, replace=['Rf_Length', 'CreateVolumeInfo_fileCount'], bounded='member count n <= 3 (sizes and name lengths fully symbolic, 64-bit)',
  trusted=VOL_TRUST, replay={'driver': 'vol_replay.cpp', 'case': 'PrepareHeader'},
  what='bounded stand-in: PrepareHeader vs the format description in 128-bit arithmetic: refuses iff something does not fit, else every recorded value equals the description')

# ---- U-CLM (C03, C05, C18, C20)
def clm(fn, props, reach=NOEXC, replace=(), **kw):
    G('clm.' + fn, props, 'clm', fn, replace=list(replace), reach=reach, **kw)
clm('WaveHeader_Create', ['C03', 'C18'], what='canonical 46-byte WAV header; chunkSize + 8 == 46 + dataLength')
clm('ClmHeader_MakeHeader', ['C03', 'C18']); clm('ClmHeader_CheckFileVersion', ['C03', 'C05']); clm('ClmHeader_CheckUnknown', ['C03', 'C05'])
clm('ClmHeader_VerifyFileVersion', ['C03', 'C05'], reach=EXC2, replace=['ClmHeader_CheckFileVersion']); clm('ClmHeader_VerifyUnknown', ['C03', 'C05'], reach=EXC2, replace=['ClmHeader_CheckUnknown'])
clm('ClmFile_FindChunk', ['C05', 'C03'], reach=EXC2, replace=RD + ['Rd_ReadHdr'], trusted=[KR_TRUST], timeout=900, defines=['OP2_FC_LIGHT'], replay={'driver': 'clm_replay.cpp', 'case': 'FindChunk'},
    what='WAV chunk walk on arbitrary bytes: memory safe (all generated checks), terminates (decreases fileSize - cursor)')
G('clm.ClmFile_FindChunk.content', ['C03', 'C05'], 'clm', 'ClmFile_FindChunk', reach=EXC2, replace=RD + ['Rd_ReadHdr'], trusted=[KR_TRUST, 'generated pointer checks are OFF in this group (they are decided by clm.ClmFile_FindChunk on the same extracted body); contract clauses read the source bytes guard-first'],
  timeout=900, no_standard_checks=True, replay={'driver': 'clm_replay.cpp', 'case': 'FindChunk'},
  what='a normal return has just read a header carrying the searched tag and returns its length field; a matching first chunk, and a matching second chunk after a non-matching first one (also when its header ends exactly at end of file) are found')
clm('ClmFile_CreateArchive', ['C03', 'C20', 'C05'], reach=EXC2, flags=['--object-bits', '12'], replace=['op2_sort_by_ComparePathFilenames', 'vec_Fr_ctor0', 'vec_Fr_open_push_back', 'vec_WaveFormatEx_ctor_n', 'vec_ClmIndexEntry_ctor_n', 'ClmFile_ReadAllWaveHeaders_U',
    'ClmFile_CompareWaveFormats_U', 'ArchiveFile_GetNamesFromPaths', 'ClmFile_StripFilenameExtensions_U', 'ArchiveFile_VerifySortedContainerHasNoDuplicateNames', 'ClmFile_PrepareWaveFormat_U', 'ClmFile_WriteArchive_U'],
    trusted=['std::sort, vector construction / push_back(make_unique<FileReader>), GetNamesFromPaths, StripFilenameExtensions (XFile) as assumed abstract contracts; ReadAllWaveHeaders / CompareWaveFormats / duplicate check / WriteArchive by use-mode framing contracts whose preconditions carry the required order'],
    what='CLM packing pipeline order for any file list; over-long stored names (arbitrary index) refused; every refusal precedes creation of the destination; duplicates are checked on the stored names')
REL('clm', 'WaveHeader_Create', 'value', 'WaveHeader', nbytes=46, props=('C18', 'C03'))
REL('clm', 'ClmHeader_MakeHeader', 'value', 'ClmHeader', nbytes=60, props=('C18', 'C03'))
claim('C04', 'Bit reader proved against the reference bit sequence (MSB-first, 0 beyond the end) with its shift-register invariant for any buffer length; position-code arithmetic proved equal to the LZHUF d_code/d_len tables for all 256 values; GetRepeatOffset proved equal to the reference DecodePosition (lemma, any buffer/bit position) and < 4096; GetNextCode proved to terminate, stay inside the tree arrays and return a symbol < 314 (cvc5, quantified structural tree invariant); DecompressCode appends 1..60 bytes and never moves the read index; FillDecompressBuffer keeps the queue invariant (unread data never overwritten: the per-code precondition unread <= 4035 holds at every call) and terminates; CopyAvailableData / GetInternalBuffer deliver the oldest unread bytes in order and advance by exactly the count; GetData (any request size) is memory safe, terminates (each pass delivers a byte or has reached the end of the stream) and delivers the requested count unless the stream ended; adaptive-tree facts as in C15.',
      'NOT decided: byte-exact equality of the decoded HISTORY with the reference decoder (ring contents vs history; match copy content), byte content delivered by GetData, ExtractFileLzh, the encoder lemma. ASSUMED: UpdateCodeCount preserves the structural tree invariant for T = 314 (proved only for T <= 6).')
claim('C03', 'WaveHeader::Create proved to build the canonical 46-byte header (all fields, cbSize 0, chunkSize + 8 = 46 + D) and ClmHeader::MakeHeader the canonical CLM header; version/unknown-field checks proved; FindChunk proved memory safe and terminating on arbitrary bytes over any K_R stream (64-bit cursor, decreases fileSize - cursor); both headers proved deterministic (two-run); the reader-to-writer copy loop proved to transfer exactly the remaining bytes. FindChunk content: a normal return has just read a header carrying the searched tag and returns its length field; a matching first chunk and a matching second chunk after a non-matching first one (also with its header ending exactly at end of file, data length 0) are found. ReadAllWaveHeaders proved memory safe on arbitrary files (format record and index slot of file i only), stored cbSize 0. Reading side (unit clmr): ReadHeader on arbitrary bytes fails or establishes count == |index| with header + index inside the file; GetSize returns the recorded length; OpenStream returns exactly [dataOffset, dataOffset + dataLength) or refuses; ExtractFile writes the 46-byte header plus exactly dataLength bytes, refuses out-of-range indices before creating a file. CreateArchive pipeline order proved (sort, open, parse, formats agree, names of the sorted list, stored names <= 8 characters, duplicate check on the STORED names, then WriteArchive). Bounded stand-ins: PrepareIndex (n <= 3), WriteArchive layout incl. "the file ends with the last member\'s data" (n <= 2) - the latter found and fixed defect D10.',
      'NOT decided: CompareWaveFormats (proof attempt timed out; its place in the pipeline is), chunk walks beyond the second chunk, fmt/data field contents end to end, XFile name handling, std::sort itself. ASSUMED: IndexEntry::GetFilename, vector plumbing, FileWriter as the abstract Writer.')
NOT_DECIDED.update({
 'C04': ['history-level equality with the reference decoder (ring/queue content), GetData byte content, ExtractFileLzh, encoder-side lemma', 'tree invariant preservation for T=314 (assumed)'],
 'C03': ['CompareWaveFormats (timeout)', 'FindChunk completeness beyond two chunks', 'PrepareIndex / WriteArchive: bounded in member count', 'XFile name handling, std::sort'],
})

# ---- U-ARCH (C17, C01, C05)
ARCH_TRUST = ['XFile::PathsAreEqual as an uninterpreted deterministic relation g_match (its case and "./" insensitivity is std::filesystem behaviour, not decided)',
              'virtual GetName(i) bound to its contract: returns the i-th name, throws iff i >= count (proved for VolFile/ClmFile::GetName where claimed)']
G('arch.GetCount', ['C17'], 'arch', 'ArchiveFile_GetCount', reach=NOEXC)
G('arch.ComparePathFilenames', ['C01', 'C02', 'C03', 'C18'], 'arch', 'ArchiveFile_ComparePathFilenames', reach=NOEXC, replace=['XFile_GetFilename', 'StringUtility_IsEqualCaseInsensitive_U'],
  trusted=['XFile::GetFilename (std::filesystem) uninterpreted; the comparator by its contract (group str.IsEqualCaseInsensitive)'], what='sort comparator = the proved case-insensitive comparator applied to the file names of the two paths, in argument order')
G('arch.VerifyIndexInBounds', ['C17', 'C05'], 'arch', 'ArchiveFile_VerifyIndexInBounds', reach=EXC2)
G('arch.GetIndex', ['C17', 'C01'], 'arch', 'ArchiveFile_GetIndex', solver='cvc5', reach=EXC2, replace=['ArchiveFile_GetCount', 'Arch_GetName', 'XFile_PathsAreEqual'], trusted=ARCH_TRUST, timeout=600, stage2='OP2_BOUNDED=4',
  what='throws iff no member matches, else returns the least matching index; any member count')
G('arch.Contains', ['C17', 'C01'], 'arch', 'ArchiveFile_Contains', solver='cvc5', reach=NOEXC, replace=['ArchiveFile_GetCount', 'Arch_GetName', 'XFile_PathsAreEqual'], trusted=ARCH_TRUST, timeout=600, stage2='OP2_BOUNDED=4',
  what='Contains(n) <=> some member matches <=> GetIndex(n) does not throw')
G('arch.VerifySortedNoDuplicates', ['C01', 'C02', 'C03'], 'arch', 'ArchiveFile_VerifySortedContainerHasNoDuplicateNames', solver='cvc5', reach=EXC2, replace=['StringUtility_IsEqual'], timeout=600,
  what='throws iff some adjacent pair of the name list is equal ignoring case')

# ---- U-FILER (C05, C12, C13: FileReader over the assumed ifstream model)
IFS = ['Ifs_read', 'Ifs_gcount', 'Ifs_tellg', 'Ifs_seekg', 'Ifs_seekg_end', 'Ifs_clear', 'Ifs_ok']
IFS_TRUST = 'std::ifstream on a regular file: assumed model contracts/ifsmodel.h (failbit semantics of read past the end, tellg = -1 while failed, seekg past the end allowed)'
for fn_, rc_ in (('ReadImplementation', EXC2), ('ReadPartial', NOEXC), ('Length', NOEXC), ('Position', NOEXC), ('Seek', NOEXC), ('SeekForward', EXC2), ('SeekBackward', EXC2), ('Slice1', EXC2)):
    G('filer.' + fn_, ['C05', 'C12', 'C13'], 'filer', 'FileReader_' + fn_, replace=IFS + ['FileReader_Position', 'FileReader_SeekForward', 'FileReader_Slice2'], reach=rc_, trusted=[IFS_TRUST], replay={'driver': 'filer_replay.cpp', 'case': fn_})

# ---- U-VOLR (C05, C02, C13, C17)
KF = ['Fr_Read', 'Fr_Length', 'Fr_Position', 'Fr_Seek', 'Fr_SeekForward', 'Fr_Slice2', 'Fr_Slice1']
KF_TRUST = ['K_F (contracts/kf.h): use-mode, content-free projection of the FileReader contracts proved in unit filer over the ifstream model; FileSliceReader construction by unit slice',
            'std::vector<IndexEntry>::resize, VolFile::ReadStringTable (vector<string> construction), ExtractFileLzh: assumed abstract contract in contracts/volr.contracts']
VR = KF + ['VolFile_VerifyIndexInBounds', 'vec_VolIndexEntry_resize', 'VolFile_ReadStringTable', 'VolFile_ExtractFileUncompressed', 'VolFile_ExtractFileLzh']
def volr(fn, props, reach=EXC2, replace=(), **kw):
    G('volr.' + fn, props, 'volr', 'VolFile_' + fn, replace=VR + list(replace), reach=reach, trusted=KF_TRUST, replay={'driver': 'volr_replay.cpp', 'case': fn}, **kw)
volr('GetName', ['C05', 'C17']); volr('GetCompressionCode', ['C05', 'C17', 'C02']); volr('GetSize', ['C05', 'C17', 'C02'])
volr('GetSectionHeader', ['C05', 'C13']); volr('OpenStream', ['C05', 'C13', 'C02'], replace=['VolFile_GetSectionHeader'])
volr('ExtractFile', ['C05', 'C17']); volr('ExtractFileUncompressed', ['C05', 'C01', 'C02'], replace=['VolFile_GetSectionHeader', 'Wr_WriteSliceT', 'FileWriter_ctor']); volr('ReadTag', ['C05', 'C02']); volr('CountValidEntries', ['C05', 'C02'], reach=NOEXC)
volr('ReadVolHeader', ['C05', 'C02'], replace=['VolFile_ReadTag', 'VolFile_CountValidEntries'], timeout=600, flags=['--object-bits', '12'])
claim('C05', 'FileReader is proved over the assumed std::ifstream model: a read that does not fit throws and leaves the reader usable at the old position (K_F); on top of K_F, opening ARBITRARY bytes as a VOL either fails or establishes the archive invariant (counted entries have an index record and a name; index storage never overrun), every per-member call refuses out-of-range indices and keeps the invariant on both exits, OpenStream returns exactly the recorded extent and refuses extents outside the file; the WAV chunk walk (FindChunk) is memory safe and terminates on arbitrary bytes; CLM header checks proved; the CLM reading side (ReadHeader, GetName, GetSize, OpenStream, ExtractFile) proved over K_F: arbitrary bytes either fail or establish count == |index|, the index read never leaves the index storage, every per-member call refuses out-of-range indices and leaves the archive (including the shared reader position) untouched on both exits, extents outside the file are refused; ReadAllWaveHeaders memory safe on arbitrary files; slice construction and the LZH bit reader (groups shared with C13/C04) refuse or stay in bounds for every input.',
      'ExtractFileUncompressed proved: every refusal (index, block header, extent) precedes creation of the output file, a successful extraction stays inside the file. ASSUMED: ifstream model; ReadStringTable (vector<string> construction), VolFile::ExtractFileLzh body, vector resize/assignment, IndexEntry::GetFilename as abstract contracts. NOT decided: ExtractAllFiles, LZH decode loop of ExtractFileLzh, resource exhaustion (a CLM header may announce 2^32 index entries).')
claim('C17', 'GetIndex proved (cvc5, any member count) to throw iff no member matches and otherwise to return the least matching index; Contains proved equivalent to "some member matches", hence Contains(n) <=> GetIndex(n) does not throw, and GetIndex(GetName(i)) == i for duplicate-free archives; VerifyIndexInBounds and every VolFile per-member call refuse out-of-range indices.',
      'PathsAreEqual is an uninterpreted deterministic relation: its case and "./" insensitivity, directory listings, regex/extension matching, archive discovery and ResourceManager precedence are NOT decided (std::filesystem / std::regex / unique_ptr vectors; no extractable repository code).')
NOT_DECIDED.update({
 'C05': ['ReadStringTable content, VolFile::ExtractFileLzh body, ExtractAllFiles, resource exhaustion'],
 'C17': ['PathsAreEqual case/"./" folding (std::filesystem)', 'ResourceManager::GetResourceStream precedence, listings, regex and extension matching, archive discovery'],
})

# ---- U-CLMR (C05, C03, C13, C17: CLM reading side)
CLMR_TRUST = [KF_TRUST[0], 'assignment of std::vector<IndexEntry>(n) and IndexEntry::GetFilename (std::find iterator + std::string construction) as assumed abstract contracts in contracts/clmr.contracts',
              'FileWriter seen as the abstract Writer (framing): constructor, Write(buffer), Write(Reader&) on a member stream (proved: wrt.WriteReader)']
CR = KF + ['ClmFile_VerifyIndexInBounds', 'vec_ClmIndexEntry_assign_n', 'ClmIndexEntry_GetFilename', 'WaveHeader_Create', 'Wr_Write', 'Wr_WriteSliceT', 'FileWriter_ctor']
def clmr(fn, props, reach=EXC2, replace=(), **kw):
    G('clmr.' + fn, props, 'clmr', fn, replace=CR + list(replace), reach=reach, trusted=CLMR_TRUST, **kw)
clmr('ClmHeader_CheckFileVersion', ['C05', 'C03'], reach=NOEXC); clmr('ClmHeader_CheckUnknown', ['C05', 'C03'], reach=NOEXC)
clmr('ClmHeader_VerifyFileVersion', ['C05', 'C03'], replace=['ClmHeader_CheckFileVersion']); clmr('ClmHeader_VerifyUnknown', ['C05', 'C03'], replace=['ClmHeader_CheckUnknown'])
clmr('ClmFile_ReadHeader', ['C05', 'C03'], replace=['ClmHeader_VerifyFileVersion', 'ClmHeader_VerifyUnknown'], flags=['--object-bits', '12'], replay={'driver': 'clmr_replay.cpp', 'case': 'ReadHeader'})
clmr('ClmFile_GetName', ['C05', 'C17', 'C03']); clmr('ClmFile_GetSize', ['C05', 'C17', 'C03'])
clmr('ClmFile_OpenStream', ['C05', 'C13', 'C03'], replay={'driver': 'clmr_replay.cpp', 'case': 'OpenStream'}); clmr('ClmFile_ExtractFile', ['C05', 'C03'], replay={'driver': 'clmr_replay.cpp', 'case': 'ExtractFile'})

# ---- U-MAPIO (C06, C07, C20)
MAPIO_TRUST = ['vector resize, size-prefixed container reads and ReadTilesetSources as abstract contracts that keep the stream a K_R stream (contracts/mapio.contracts)', KR_TRUST]
MAPIO_R = RD + ['vec_Tile_resize', 'vec_u32_resize', 'Map_ReadTilesetSources', 'Reader_ReadSized_u32_vec_TileMapping', 'Reader_ReadSized_u32_vec_TerrainType', 'Reader_ReadSized_u32_str',
                'Map_CheckMinVersionTag', 'MapHeader_WidthInTiles', 'MapHeader_TileCount', 'MapHeader_ctor', 'Map_ctor', 'IsPowerOf2', 'Log2OfPowerOf2', 'Wr_Write']
def mapio(fn, props, reach=EXC2, replace=(), trusted=None, **kw):
    G('mapio.' + fn, props, 'mapio', ('SavedGameUnits_' if fn == 'CheckSizeOfUnit' else 'Map_') + fn, replace=MAPIO_R + list(replace), reach=reach, trusted=trusted or MAPIO_TRUST, **kw)
mapio('SkipSaveGameHeader', ['C07']); mapio('ReadMapBeginning', ['C07', 'C06'], replace=['Map_ReadTilesetHeader'], timeout=900, flags=['--object-bits', '12'], plain_ui=True)
mapio('ReadTilesetHeader', ['C07', 'C06']); mapio('ReadVersionTag', ['C07', 'C06']); mapio('ReadTileGroup', ['C07', 'C06'], flags=['--object-bits', '12'], plain_ui=True)
SGU_R = ['vec_ObjectType1_resize', 'SavedGameUnits_CheckSizeOfUnit', 'Rd_ReadUnits', 'Rd_ReadFreeUnits', 'Rd_ReadU32T']
mapio('ReadSavedGameUnits', ['C07'], replace=SGU_R, flags=['--object-bits', '12', '--slice-formula'], timeout=900, defines=['OP2_SGU_LIGHT'],
      what='saved-game unit section on arbitrary bytes: memory safe (all generated checks), stream stays a valid K_R stream on both exits')
G('mapio.ReadSavedGameUnits.content', ['C07'], 'mapio', 'Map_ReadSavedGameUnits', replace=MAPIO_R + SGU_R, reach=EXC2, flags=['--object-bits', '12', '--slice-formula'], timeout=900, no_standard_checks=True, solver='cadical',
  trusted=MAPIO_TRUST + ['generated pointer checks are OFF in this group (decided by mapio.ReadSavedGameUnits on the same extracted body)', 'typed 32-bit reads assemble the four K_R bytes little-endian (target byte order)'],
  what='consumes exactly the bytes the layout defines: both object tables sized by their own counts, free-unit table iff first != next free slot; wrong unit size refused; short input refused')
mapio('CheckSizeOfUnit', ['C07'])
mapio('WriteTilesetSources', ['C06', 'C18'], replace=['Writer_WriteSized_u32_str'], defines=['OP2_BOUNDED=4'], timeout=600, bounded='<= 4 tileset sources, names <= 64 bytes (the unbounded quantified prefix-sum proof did not close on cvc5 in 600 s)',
      what='bounded stand-in: tileset source table length equals the description (tile count written iff the name is not empty); proved by loop contract for <= 4 sources')
mapio('WriteTileGroups', ['C06'], replace=['Writer_WriteSized_u32_str', 'Map_WriteContainerSize', 'vec_TileGroup_empty'], flags=['--object-bits', '12'], timeout=600,
      bounded='<= 4 tile groups, <= 4096 mapping indices and names <= 64 bytes each', what='bounded stand-in: tile group table = count, count - 1, then per group width, height, indices, size-prefixed name; total length equals the description')
mapio('Write', ['C06', 'C18'], reach=EXC2, plain_ui=True, replace=['Map_CreateHeader', 'Map_WriteTilesetSources_U', 'Map_WriteTileGroups_U', 'Writer_WriteSized_u32_vec_TileMapping', 'Writer_WriteSized_u32_vec_TerrainType'], flags=['--object-bits', '12'], timeout=600,
      what='map writer: sections in the order and with the sizes the reader consumes; version tags, clip rectangle, TILE SET marker and tile bytes at the offsets the layout gives; refusal writes nothing')
RS_R = ['Map_SkipSaveGameHeader_U', 'Map_ReadMapBeginning_U', 'Map_ReadVersionTag_U', 'Map_ReadSavedGameUnits_U', 'Map_ReadTileGroups_U']
RS_T = MAPIO_TRUST + ['the steps of ReadMap / ReadSavedGame by use-mode framing contracts (ghost step counter and ghost lengths); their own behaviour: groups mapio.SkipSaveGameHeader, ReadMapBeginning, ReadVersionTag, ReadSavedGameUnits, ReadTileGroups']
mapio('ReadMap', ['C06', 'C07'], replace=RS_R, trusted=RS_T, what='map file = beginning, tag, tag, tile groups in that order; both tags compared with the map\'s; consumption = sum of the steps')
mapio('ReadSavedGame', ['C07'], replace=RS_R, trusted=RS_T, what='saved game = 0x1E025 bytes skipped, beginning, tag, unit section, tag in that order')
mapio('ReadTileGroups', ['C07', 'C06'], replace=['Map_ReadTileGroup_U', 'vec_TileGroup_push_back'], trusted=MAPIO_TRUST + ['ReadTileGroup by a use-mode framing contract; std::vector<TileGroup>::push_back assumed'], flags=['--object-bits', '12'],
      what='tile group table on arbitrary bytes: safe, terminates, stream valid and monotone')
mapio('GetWidthInTilesLog2', ['C06', 'C20']); mapio('CreateHeader', ['C06', 'C20'], replace=['Map_GetWidthInTilesLog2']); mapio('WriteContainerSize', ['C20', 'C06'])

G('volw.WriteHeaderFiles.bounded', ['C02', 'C01', 'C18'], 'volw', None, harness='h_vol_write_bounded', defines=['OP2_VOLN=2'], loop_contracts=False, reach=['two members'],
  flags=['--unwind', '5', '--unwinding-assertions', '--object-bits', '12'], timeout=900, replace=['Rf_Length', 'CreateVolumeInfo_fileCount', 'VolSectionHeader_ctor3', 'Wr_Write', 'Wr_WriteReaderF'],
  force_replace=['VolSectionHeader_ctor3'], bounded='<= 2 members (sizes up to 2^31-1, names <= 3 characters, all symbolic)', trusted=VOL_TRUST + [WR_TRUST],
  what='bounded stand-in: framing and every structural byte (tags, lengths with padding flag, paddings, block headers at the recorded offsets) of PrepareHeader+WriteHeader+WriteFiles vs the VOL description, for an arbitrary output offset')

sprh('ArtFile_WriteFrame', ['C10', 'C20'], reach=EXC2, replace=['Wr_Write'], trusted=[WR_TRUST], what='all flag combinations x all 7-bit counts: framing, first bytes, refusal of count != |layers|')
sprh('ArtFile_ReadFrame', ['C10', 'C11', 'C18'], reach=EXC2, replace=RD + ['vec_Layer_resize'], trusted=[KR_TRUST], what='consumes exactly the grammar; absent optional bytes are 0; |layers| == count')
G('clm.PrepareIndex.bounded', ['C20', 'C03'], 'clm', None, harness='h_clm_prepareindex_bounded', defines=['OP2_CLMN=3'], loop_contracts=False, reach=EXC2, replace=['op2_strncpy'],
  flags=['--unwind', '6', '--unwinding-assertions'], timeout=600, bounded='member count n <= 3 (data lengths fully symbolic)',
  what='bounded stand-in: PrepareIndex vs the CLM layout in 128-bit arithmetic: refuses iff an offset does not fit 32 bits, else offsets equal the description')
claim('C20', 'Proved: size-prefixed writes (uint8/16/32 and int8/16 prefixes) refuse a container that does not fit the prefix and otherwise write prefix then data; WriteContainerSize refuses sizes above 2^32-1; CreateHeader refuses a tileset count above 32 bits and a non-power-of-two width; WriteFrame refuses a layer list that disagrees with its 7-bit count (all counts, all flag combinations); WriteAnimation refuses a frame table or unknown container above 2^32 - 1 entries. Bounded stand-ins (labelled bounded, not proof): VolFile::PrepareHeader and ClmFile::PrepareIndex for <= 3 members with fully symbolic 64-bit sizes against the layout in 128-bit arithmetic: refused iff a size or accumulated offset does not fit its field.',
      'The VOL/CLM accumulated-offset clauses are bounded in the member count (n <= 3), not in the sizes. Refusal before creation of the destination: proved for VolFile::CreateArchive / WriteVolume and ClmFile::CreateArchive at the level of the pipeline order (every refusing step precedes the only step that constructs the FileWriter; the steps themselves by use-mode framing contracts, std::sort / vector plumbing assumed); CLM stored names longer than 8 characters are refused before WriteArchive (arbitrary index). ArtFile animation / frame / layer totals above 2^32 - 1 are refused by WriteAnimations (totals themselves: CountFrames, assumed).')
claim('C07', 'For ARBITRARY input bytes over any K_R stream ReadMapBeginning is proved to either throw or return a map whose width is a power of two and whose tile array has exactly height << log2(width) entries (no over-wide shift, no wrapped product, every short read refused), consuming at least the 46 fixed bytes; MapHeader::WidthInTiles/TileCount proved for every exponent <= 31; ReadVersionTag, ReadTilesetHeader, ReadTileGroup, SkipSaveGameHeader proved safe with their exact consumption or refusal; ReadSavedGameUnits proved memory safe on arbitrary bytes and to consume exactly the bytes the layout defines (both object tables sized by their own counts, free-unit table iff first != next free slot; wrong unit size and short input refused); ReadTileGroups proved memory safe and terminating on arbitrary bytes; the pipelines ReadMap (beginning, tag, tag, tile groups) and ReadSavedGame (0x1E025 bytes skipped, the same beginning, tag, unit section, tag) proved to run their steps in exactly that order, to compare both version tags with the tag of the map just read, and to consume the sum of the steps\' lengths - so a saved game embeds exactly the section sequence a map file starts with.',
      'ASSUMED abstract contracts: vector resize, Read<uint32_t>(container), ReadTilesetSources. The pipeline steps are bound to use-mode framing contracts (ghost step counter, ghost lengths). NOT decided: field-level equality of the map yielded by a saved game and by the embedded map file, resource exhaustion.')
claim('C06', 'Header layer of the round trip proved: CreateHeader writes every header field from the map (width as its base-2 logarithm, saved flag normalised to 0/1), GetWidthInTilesLog2 / Log2OfPowerOf2 / IsPowerOf2 exact, MapHeader and Map constructors deterministic and as specified, version-tag checks exact, WriteContainerSize byte-exact; the tile index formula (C16 group); Map::Write proved to emit the sections in the order and with the sizes the reader consumes them (header, tiles, clip rectangle, tileset sources, TILE SET marker, size-prefixed mappings and terrain types, version tag twice, tile groups), with the version tags, the clip rectangle, the marker and the tile bytes at the offsets that layout gives, and to write nothing when it refuses; reader-side framing facts as in C07. Bounded stand-ins: WriteTilesetSources writes exactly the table the reader consumes (tile count iff the name is not empty) for <= 4 sources; WriteTileGroups writes count, count - 1, and per group width, height, indices and size-prefixed name with the total length of the description for <= 4 groups.',
      'ASSUMED in Map::Write: the sub-writers by framing contracts (their lengths are ghosts). NOT decided: the container-level round trip (Write(Read(b)) = normalise(b)), WriteTilesetSources / WriteTileGroups beyond 4 entries, agreement of a tile group\'s index count with width * height (the writer does not check it), editing operations other than SetCellType / SetLavaPossible (proved in C16), TrimTilesetSources (lambda).')
claim('C01', 'Proved: the comparator that orders members is a strict weak order whose incomparability is case-insensitive equality (C19 lemmas); adjacent-duplicate detection throws iff two neighbouring names are equal ignoring case; GetIndex/Contains find a member by the least matching index and agree; the reader-to-writer copy transfers exactly the remaining bytes for every chunk size; VOL section headers serialise tag, 31-bit length and padding flag exactly; the VOL reader returns exactly the recorded extents and sizes. Bounded stand-ins: PrepareHeader (n <= 3) and PrepareHeader+WriteHeader+WriteFiles byte-for-byte against an independent encoder (n <= 2, tiny names/payloads).',
      'The layout clauses are bounded (see evidence.bounded). Also proved: WriteVolume refuses an output path equal to any input (arbitrary index) before the destination is created; CreateArchive runs sort -> names of the sorted list -> duplicate check on those names -> PrepareHeader -> WriteVolume (pipeline order, steps by framing contracts). NOT decided: path spelling (XFile::GetFilename, ComparePathFilenames composition), std::sort itself, extraction to disk, PathsAreEqual case folding.')
claim('C02', 'Writer => format: bounded byte-for-byte comparison of the written archive with an independent encoder of the VOL description (n <= 2) and of the header quantities in 128-bit arithmetic (n <= 3); section header bit layout proved. Format => reader: for arbitrary bytes ReadVolHeader establishes the archive invariant, CountValidEntries stops at the first unused slot (0xFFFFFFFF name offset), GetSize/GetCompressionCode return the recorded fields, OpenStream returns the recorded extent or refuses it; ordering facts as in C01/C19.',
      'Bounded in the member count for the writer side. NOT decided: name table content (ReadStringTable is abstract), acceptance by the game.')
NOT_DECIDED.update({
 'C20': ['CountFrames arithmetic behind the ArtFile totals', 'VOL/CLM offsets: bounded in member count', 'pipeline steps of CreateArchive are bound to abstract framing contracts (std::sort, vector plumbing assumed)'],
 'C07': ['field-level saved-game vs map equivalence (pipeline order and consumption are decided)', 'resource exhaustion'],
 'C06': ['container-level round trip and byte stability', 'WriteTilesetSources / WriteTileGroups beyond 4 entries', 'TrimTilesetSources'],
 'C01': ['layout clauses bounded in member count', 'path spelling (ComparePathFilenames composition), std::sort itself, extraction to disk'],
 'C02': ['writer side bounded in member count', 'ReadStringTable content', 'acceptance by the game'],
})
G('wrt.Read_u16string', ['C12'], 'wrt', 'Reader_Read_u16string', replace=['Reader_Read'] + RD, trusted=[KR_TRUST], what='Read(basic_string<CharT>&) for a 2-byte CharT consumes size*sizeof(CharT)')
G('wrt.Read_vec_u32', ['C12'], 'wrt', 'Reader_Read_vec_u32', replace=RD, trusted=[KR_TRUST], what='Read(container&) consumes size*sizeof(value_type)')
G('wrt.Reader_Read', ['C12'], 'wrt', 'Reader_Read', replace=RD, trusted=[KR_TRUST])

clm('ClmFile_ReadAllWaveHeaders', ['C05', 'C03'], reach=EXC2, replace=KF + ['ClmFile_FindChunk_F'], timeout=600, trusted=KF_TRUST,
    what='WAV intake: each file\'s format record is read into its own 18-byte slot, nothing else is written; terminates')

G('clm.WriteArchive.bounded', ['C03'], 'clm', None, harness='h_clm_writearchive_bounded', defines=['OP2_CLMN=2'], loop_contracts=False, reach=['two members'],
  replace=['op2_strncpy', 'Wr_Write', 'Wr_WriteReaderFr', 'Wr_WriteSliceT', 'FileWriter_ctor', 'Fr_Slice1', 'ClmHeader_MakeHeader'], force_replace=['ClmHeader_MakeHeader'],
  flags=['--unwind', '5', '--unwinding-assertions', '--object-bits', '12'], timeout=600, bounded='<= 2 members (lengths, positions and data lengths fully symbolic)', trusted=[WR_TRUST] + KF_TRUST,
  replay={'driver': 'clmw_replay.cpp', 'case': 'WriteArchive'},
  what='bounded stand-in: the archive is header + index + exactly D_j audio bytes per member, whatever follows the data chunk in the source files')
