"""Unit descriptions: which functions of /repo/src are extracted, and the bindings the
extractor needs (DESIGN.md section 4/5).  Nothing here mentions a constant, operator or
comparison of the code under verification: only names, types and callee bindings."""

UNITS = {}

def unit(u):
    UNITS[u['name']] = u
    return u

def T(fn, **kw):
    d = {'fn': fn, 'throws': True}; d.update(kw); return d
def N(fn, **kw):
    d = {'fn': fn, 'throws': False}; d.update(kw); return d

# --------------------------------------------------------------------------- U-BITS
unit({
    'name': 'bits',
    'functions': [
        {'file': 'src/BitTwiddle.cpp', 'qual': 'IsPowerOf2', 'cname': 'IsPowerOf2'},
        {'file': 'src/BitTwiddle.cpp', 'qual': 'Log2OfPowerOf2', 'cname': 'Log2OfPowerOf2'},
    ],
})

# --------------------------------------------------------------------------- U-MEMR
MR = 'src/Stream/MemoryReader.cpp'
unit({
    'name': 'memr',
    'typemap': {'MemoryReader': 'MemoryReader'},
    'structs': [('src/Stream/MemoryReader.h', 'MemoryReader')],
    'calls': {
        'Slice': {2: T('MemoryReader_Slice2')},
        'Position': N('MemoryReader_Position'),
        'SeekForward': T('MemoryReader_SeekForward'),
        'MemoryReader': N('MemoryReader_make', recv='none'),
    },
    'functions': [
        {'file': MR, 'qual': 'MemoryReader::MemoryReader', 'cname': 'MemoryReader_ctor', 'cls': 'MemoryReader', 'ctor': True},
        {'file': MR, 'qual': 'MemoryReader::ReadImplementation', 'cname': 'MemoryReader_ReadImplementation', 'cls': 'MemoryReader'},
        {'file': MR, 'qual': 'MemoryReader::ReadPartial', 'cname': 'MemoryReader_ReadPartial', 'cls': 'MemoryReader', 'autos': {'bytesLeft': 'size_t'}},
        {'file': MR, 'qual': 'MemoryReader::Length', 'cname': 'MemoryReader_Length', 'cls': 'MemoryReader'},
        {'file': MR, 'qual': 'MemoryReader::Position', 'cname': 'MemoryReader_Position', 'cls': 'MemoryReader'},
        {'file': MR, 'qual': 'MemoryReader::Seek', 'cname': 'MemoryReader_Seek', 'cls': 'MemoryReader'},
        {'file': MR, 'qual': 'MemoryReader::SeekForward', 'cname': 'MemoryReader_SeekForward', 'cls': 'MemoryReader'},
        {'file': MR, 'qual': 'MemoryReader::SeekBackward', 'cname': 'MemoryReader_SeekBackward', 'cls': 'MemoryReader'},
        {'file': MR, 'qual': 'MemoryReader::Slice', 'nparams': 1, 'cname': 'MemoryReader_Slice1', 'cls': 'MemoryReader', 'autos': {'slice': 'MemoryReader'}},
        {'file': MR, 'qual': 'MemoryReader::Slice', 'nparams': 2, 'cname': 'MemoryReader_Slice2', 'cls': 'MemoryReader'},
    ],
})
