"""Unit descriptions: which functions of /repo/src are extracted, and the bindings the
extractor needs (DESIGN.md section 4/5).  Nothing here mentions a constant, operator or
comparison of the code under verification: only names, types and callee bindings."""

UNITS = {}

def unit(u):
    UNITS[u['name']] = u
    return u

def T(fn, **kw):
    d = {'fn': fn, 'throws': True}; d.update(kw); return d
def N(fn, **kw):
    d = {'fn': fn, 'throws': False}; d.update(kw); return d

# --------------------------------------------------------------------------- U-BITS
unit({
    'name': 'bits',
    'functions': [
        {'file': 'src/BitTwiddle.cpp', 'qual': 'IsPowerOf2', 'cname': 'IsPowerOf2'},
        {'file': 'src/BitTwiddle.cpp', 'qual': 'Log2OfPowerOf2', 'cname': 'Log2OfPowerOf2'},
    ],
})

# --------------------------------------------------------------------------- U-MEMR
MR = 'src/Stream/MemoryReader.cpp'
unit({
    'name': 'memr',
    'includes': ['kr.h'],
    'typemap': {'MemoryReader': 'MemoryReader'},
    'structs': [('src/Stream/MemoryReader.h', 'MemoryReader')],
    'calls': {
        'Slice': {2: T('MemoryReader_Slice2')},
        'Position': N('MemoryReader_Position'),
        'SeekForward': T('MemoryReader_SeekForward'),
        'MemoryReader': N('MemoryReader_make', recv='none'),
    },
    'functions': [
        {'file': MR, 'qual': 'MemoryReader::MemoryReader', 'cname': 'MemoryReader_ctor', 'cls': 'MemoryReader', 'ctor': True},
        {'file': MR, 'qual': 'MemoryReader::ReadImplementation', 'cname': 'MemoryReader_ReadImplementation', 'cls': 'MemoryReader'},
        {'file': MR, 'qual': 'MemoryReader::ReadPartial', 'cname': 'MemoryReader_ReadPartial', 'cls': 'MemoryReader', 'autos': {'bytesLeft': 'size_t'}},
        {'file': MR, 'qual': 'MemoryReader::Length', 'cname': 'MemoryReader_Length', 'cls': 'MemoryReader'},
        {'file': MR, 'qual': 'MemoryReader::Position', 'cname': 'MemoryReader_Position', 'cls': 'MemoryReader'},
        {'file': MR, 'qual': 'MemoryReader::Seek', 'cname': 'MemoryReader_Seek', 'cls': 'MemoryReader'},
        {'file': MR, 'qual': 'MemoryReader::SeekForward', 'cname': 'MemoryReader_SeekForward', 'cls': 'MemoryReader'},
        {'file': MR, 'qual': 'MemoryReader::SeekBackward', 'cname': 'MemoryReader_SeekBackward', 'cls': 'MemoryReader'},
        {'file': MR, 'qual': 'MemoryReader::Slice', 'nparams': 1, 'cname': 'MemoryReader_Slice1', 'cls': 'MemoryReader', 'autos': {'slice': 'MemoryReader'}},
        {'file': MR, 'qual': 'MemoryReader::Slice', 'nparams': 2, 'cname': 'MemoryReader_Slice2', 'cls': 'MemoryReader'},
    ],
})

# --------------------------------------------------------------------------- U-MEMW
MW = 'src/Stream/MemoryWriter.cpp'
unit({
    'name': 'memw',
    'includes': ['kr.h'],
    'typemap': {'MemoryWriter': 'MemoryWriter'},
    'structs': [('src/Stream/MemoryWriter.h', 'MemoryWriter')],
    'calls': {'Seek': T('MemoryWriter_Seek')},
    'functions': [
        {'file': MW, 'qual': 'MemoryWriter::MemoryWriter', 'cname': 'MemoryWriter_ctor', 'cls': 'MemoryWriter', 'ctor': True},
        {'file': MW, 'qual': 'MemoryWriter::WriteImplementation', 'cname': 'MemoryWriter_WriteImplementation', 'cls': 'MemoryWriter'},
        {'file': MW, 'qual': 'MemoryWriter::Length', 'cname': 'MemoryWriter_Length', 'cls': 'MemoryWriter'},
        {'file': MW, 'qual': 'MemoryWriter::Position', 'cname': 'MemoryWriter_Position', 'cls': 'MemoryWriter'},
        {'file': MW, 'qual': 'MemoryWriter::Seek', 'cname': 'MemoryWriter_Seek', 'cls': 'MemoryWriter'},
        {'file': MW, 'qual': 'MemoryWriter::SeekForward', 'cname': 'MemoryWriter_SeekForward', 'cls': 'MemoryWriter'},
        {'file': MW, 'qual': 'MemoryWriter::SeekBackward', 'cname': 'MemoryWriter_SeekBackward', 'cls': 'MemoryWriter'},
    ],
})

# --------------------------------------------------------------------------- U-SLICE  (SliceReader<W>, W any K_W stream)
SR = 'src/Stream/SliceReader.h'
def _sl(name, **kw):
    d = {'file': SR, 'qual': name, 'inclass': 'SliceReader', 'cls': 'SliceReader', 'cname': 'SliceReader_' + name}
    d.update(kw); return d
unit({
    'name': 'slice',
    'includes': ['kr.h'],
    'typemap': {'WrappedStreamType': 'Ws', 'SliceReader<WrappedStreamType>': 'SliceReader', 'SliceReader': 'SliceReader'},
    'structs': [(SR, 'SliceReader')],
    'calls': {
        'Initialize': T('SliceReader_Initialize'),
        'Position': [(r'.*wrappedStream', N('Ws_Position')), (r'', N('SliceReader_Position'))],
        'Length': [(r'.*wrappedStream', N('Ws_Length'))],
        'ReadPartial': [(r'.*wrappedStream', N('Ws_ReadPartial'))],
        'Read': [(r'.*wrappedStream', T('Ws_Read'))],
        'Seek': [(r'.*wrappedStream', N('Ws_Seek'))],
        'SeekForward': [(r'.*wrappedStream', T('Ws_SeekForward')), (r'', T('SliceReader_SeekForward'))],
        'SeekBackward': [(r'.*wrappedStream', T('Ws_SeekBackward'))],
        'Slice': {2: T('SliceReader_Slice2')},
        'SliceReader': T('SliceReader_make', recv='none', args=['ref']),
    },
    'functions': [
        _sl('SliceReader', ordinal=0, cname='SliceReader_ctor', ctor=True, init_as_call={'wrappedStream': 'Ws_copy(&self->wrappedStream, &($))'}),
        _sl('SliceReader', ordinal=1, cname='SliceReader_copyctor', ctor=True, init_as_call={'wrappedStream': 'Ws_copy(&self->wrappedStream, &($))'}),
        _sl('Initialize'),
        _sl('ReadImplementation'),
        _sl('ReadPartial', autos={'bytesLeft': 'uint64_t'}),
        _sl('Length'), _sl('Position'),
        _sl('SeekForward'), _sl('SeekBackward'), _sl('Seek'),
        _sl('Slice', nparams=1, cname='SliceReader_Slice1', autos={'slice': 'SliceReader'}, ret_cxx='SliceReader'),
        _sl('Slice', nparams=2, cname='SliceReader_Slice2', ret_cxx='SliceReader'),
    ],
})

# --------------------------------------------------------------------------- U-BIDI  (helpers of the reader interfaces over any K_R reader)
unit({
    'name': 'bidi',
    'includes': ['kr.h'],
    'typemap': {},
    'calls': {
        'ReadImplementation': T('Rd_Read'), 'SeekBackward': T('Rd_SeekBackward'), 'Seek': T('Rd_Seek'),
        'SeekForward': T('Rd_SeekForward'), 'Length': N('Rd_Length'), 'Position': N('Rd_Position'),
    },
    'functions': [
        {'file': 'src/Stream/BidirectionalReader.h', 'qual': 'Peek', 'inclass': 'BidirectionalReader', 'ordinal': 0, 'cls': 'Rd', 'cname': 'BidirectionalReader_Peek', 'members': {}},
        {'file': 'src/Stream/BidirectionalReader.h', 'qual': 'SeekBeginning', 'inclass': 'BidirectionalReader', 'cls': 'Rd', 'cname': 'BidirectionalReader_SeekBeginning', 'members': {}},
        {'file': 'src/Stream/ForwardReader.h', 'qual': 'SeekEnd', 'inclass': 'ForwardReader', 'cls': 'Rd', 'cname': 'ForwardReader_SeekEnd', 'members': {}},
        {'file': 'src/Stream/Reader.h', 'qual': 'Read', 'inclass': 'Reader', 'ordinal': 0, 'cls': 'Rd', 'cname': 'Reader_Read', 'members': {}},
    ],
})

# --------------------------------------------------------------------------- shared map types
def VIEW(name, elem):
    return 'typedef struct %s { %s* data; size_t size; } %s;' % (name, elem, name)
STR_VIEW = 'typedef struct str { char* data; size_t size; } str;'
MAP_TYPEMAP = {
    'CellType': 'CellType', 'Tile': 'Tile', 'Rect': 'Rect', 'TileMapping': 'TileMapping', 'TerrainType': 'TerrainType', 'Range16': 'Range16',
    'TilesetSource': 'TilesetSource', 'TileGroup': 'TileGroup', 'MapHeader': 'MapHeader', 'Map': 'Map',
    'std::string': 'str', 'std::vector<uint32_t>': 'vec_u32', 'std::vector<Tile>': 'vec_Tile', 'std::vector<TilesetSource>': 'vec_TilesetSource',
    'std::vector<TileMapping>': 'vec_TileMapping', 'std::vector<TerrainType>': 'vec_TerrainType', 'std::vector<TileGroup>': 'vec_TileGroup',
}
MAP_STRUCTS = [
    ('src/Rect.h', 'Rect', {'packed': True}),
    ('src/Map/Tile.h', 'Tile', {'packed': True}),
    ('src/Map/TileMapping.h', 'TileMapping', {'packed': True}),
    ('src/Map/TerrainType.h', 'Range16', {'packed': True}),
    ('src/Map/TerrainType.h', 'TerrainType', {'packed': True}),
    STR_VIEW, VIEW('vec_u32', 'uint32_t'),
    ('src/Map/TilesetSource.h', 'TilesetSource', {'packed': True}),
    ('src/Map/TileGroup.h', 'TileGroup'),
    ('src/Map/MapHeader.h', 'MapHeader', {'packed': True}),
    VIEW('vec_Tile', 'Tile'), VIEW('vec_TilesetSource', 'TilesetSource'), VIEW('vec_TileMapping', 'TileMapping'),
    VIEW('vec_TerrainType', 'TerrainType'), VIEW('vec_TileGroup', 'TileGroup'),
    ('src/Map/Map.h', 'Map'),
]
MAP_VIEWS = [(r'self->tiles', 'vec'), (r'self->tileMappings', 'vec'), (r'self->tilesetSources', 'vec'), (r'self->terrainTypes', 'vec'), (r'self->tileGroups', 'vec')]

# --------------------------------------------------------------------------- U-MAPH
MC = 'src/Map/Map.cpp'
def _mp(name, **kw):
    d = {'file': MC, 'qual': 'Map::' + name, 'cls': 'Map', 'cname': 'Map_' + name}
    d.update(kw); return d
def _mh(name, **kw):
    d = {'file': 'src/Map/MapHeader.h', 'qual': name, 'inclass': 'MapHeader', 'cls': 'MapHeader', 'cname': 'MapHeader_' + name}
    d.update(kw); return d
unit({
    'name': 'maph',
    'typemap': MAP_TYPEMAP,
    'enums': [('src/Map/CellType.h', 'CellType')],
    'structs': MAP_STRUCTS,
    'scoped': {'CellType': 'CellType', 'MapHeader': 'MapHeader'},
    'views': MAP_VIEWS,
    'calls': {
        'GetTileIndex': N('Map_GetTileIndex'),
        'GetTileMappingIndex': N('Map_GetTileMappingIndex'),
    },
    'functions': [
        {'file': 'src/Map/MapHeader.cpp', 'qual': 'MapHeader::MapHeader', 'cls': 'MapHeader', 'cname': 'MapHeader_ctor', 'ctor': True},
        _mh('WidthInTiles'), _mh('TileCount'), _mh('VersionTagValid'),
        _mp('Map', cname='Map_ctor', ctor=True),
        _mp('GetTileIndex', autos={'lowerX': 'size_t', 'upperX': 'size_t'}),
        _mp('GetTileMappingIndex'), _mp('GetCellType'), _mp('SetCellType'), _mp('GetLavaPossible'), _mp('SetLavaPossible'),
        _mp('GetTilesetIndex'), _mp('GetImageIndex'),
        _mp('CheckMinVersionTag', static=True),
    ],
})

# --------------------------------------------------------------------------- U-STR
SU = 'src/StringUtility.cpp'
unit({
    'name': 'str',
    'typemap': {'std::string': 'str'},
    'structs': [STR_VIEW],
    'calls': {'tolower': N('op2_tolower', recv='none'), 'toupper': N('op2_toupper', recv='none')},
    'functions': [
        {'file': SU, 'qual': 'IsEqual', 'cname': 'StringUtility_IsEqual'},
        {'file': SU, 'qual': 'IsEqualCaseInsensitive', 'cname': 'StringUtility_IsEqualCaseInsensitive'},
        {'file': SU, 'qual': 'ConvertToUpperInPlace', 'cname': 'StringUtility_ConvertToUpperInPlace', 'rangefor': {'c': 'char'}},
    ],
})

# --------------------------------------------------------------------------- U-HUFF
HF = 'src/Archive/AdaptiveHuffmanTree.cpp'
HUFF_TM = {'NodeType': 'uint16_t', 'NodeIndex': 'uint16_t', 'NodeData': 'uint16_t', 'AdaptiveHuffmanTree::NodeType': 'uint16_t',
           'AdaptiveHuffmanTree::NodeIndex': 'uint16_t', 'AdaptiveHuffmanTree::NodeData': 'uint16_t', 'std::vector<NodeType>': 'vec_u16',
           'AdaptiveHuffmanTree': 'AdaptiveHuffmanTree'}
def _hf(name, **kw):
    d = {'file': HF, 'qual': 'AdaptiveHuffmanTree::' + name, 'cls': 'AdaptiveHuffmanTree', 'cname': 'AdaptiveHuffmanTree_' + name}
    d.update(kw); return d
HUFF_STRUCTS = [VIEW('vec_u16', 'uint16_t'), ('src/Archive/AdaptiveHuffmanTree.h', 'AdaptiveHuffmanTree')]
HUFF_CALLS = {
    'VerifyNodeIndexInBounds': T('AdaptiveHuffmanTree_VerifyNodeIndexInBounds'),
    'VerifyNodeDataInBounds': T('AdaptiveHuffmanTree_VerifyNodeDataInBounds'),
    'SwapNodes': N('AdaptiveHuffmanTree_SwapNodes'),
}
HUFF_FUNCS = [
    _hf('AdaptiveHuffmanTree', cname='AdaptiveHuffmanTree_ctor', ctor=True,
        init_as_call={'linkOrData': 'vec_u16_init(&self->linkOrData, $)', 'subtreeCount': 'vec_u16_init(&self->subtreeCount, $)', 'parentIndex': 'vec_u16_init(&self->parentIndex, $)'}),
    _hf('TerminalNodeCount'), _hf('GetRootNodeIndex'), _hf('GetChildNode'), _hf('IsLeaf'), _hf('GetNodeData'),
    _hf('UpdateCodeCount'), _hf('VerifyNodeIndexInBounds'), _hf('VerifyNodeDataInBounds'),
    _hf('SwapNodes', autos={'temp': 'uint16_t'}), _hf('GetEncodedBitString'),
]
unit({'name': 'huff', 'includes': ['huffc.h'], 'typemap': HUFF_TM, 'structs': HUFF_STRUCTS, 'calls': HUFF_CALLS, 'functions': HUFF_FUNCS})

# --------------------------------------------------------------------------- U-BSR
BS = 'src/Archive/BitStreamReader.cpp'
def _bs(name, **kw):
    d = {'file': BS, 'qual': 'BitStreamReader::' + name, 'cls': 'BitStreamReader', 'cname': 'BitStreamReader_' + name}
    d.update(kw); return d
unit({
    'name': 'bsr',
    'includes': ['bsr.h'],
    'typemap': {'BitStreamReader': 'BitStreamReader'},
    'structs': [('src/Archive/BitStreamReader.h', 'BitStreamReader')],
    'functions': [_bs('BitStreamReader', cname='BitStreamReader_ctor', ctor=True), _bs('ReadNextBit'), _bs('ReadNext8Bits'), _bs('EndOfStream'), _bs('GetBitReadPos')],
})

# --------------------------------------------------------------------------- U-LZ
LZ = 'src/Archive/HuffLZ.cpp'
def _lz(name, **kw):
    d = {'file': LZ, 'qual': 'HuffLZ::' + name, 'cls': 'HuffLZ', 'cname': 'HuffLZ_' + name}
    d.update(kw); return d
unit({
    'name': 'lz',
    'includes': ['lzh.spec.h', 'bsr.h', 'huffc.h'],
    'typemap': dict(HUFF_TM, **{'BitStreamReader': 'BitStreamReader', 'HuffLZ': 'HuffLZ', 'OffsetModifiers': 'OffsetModifiers', 'HuffLZ::OffsetModifiers': 'OffsetModifiers'}),
    'structs': [('src/Archive/BitStreamReader.h', 'BitStreamReader'), VIEW('vec_u16', 'uint16_t'), ('src/Archive/AdaptiveHuffmanTree.h', 'AdaptiveHuffmanTree'),
                ('src/Archive/HuffLZ.h', 'OffsetModifiers'), ('src/Archive/HuffLZ.h', 'HuffLZ')],
    'calls': {
        'InitializeDecompressBuffer': N('HuffLZ_InitializeDecompressBuffer'),
        'FillDecompressBuffer': T('HuffLZ_FillDecompressBuffer'),
        'CopyAvailableData': N('HuffLZ_CopyAvailableData'),
        'DecompressCode': T('HuffLZ_DecompressCode'),
        'GetNextCode': T('HuffLZ_GetNextCode'),
        'GetRepeatOffset': N('HuffLZ_GetRepeatOffset'),
        'WriteCharToBuffer': N('HuffLZ_WriteCharToBuffer'),
        'GetOffsetModifiers': N('HuffLZ_GetOffsetModifiers', recv='none'),
        'ReadNextBit': N('BitStreamReader_ReadNextBit'), 'ReadNext8Bits': N('BitStreamReader_ReadNext8Bits'), 'EndOfStream': N('BitStreamReader_EndOfStream'),
        'UpdateCodeCount': T('AdaptiveHuffmanTree_UpdateCodeCount'), 'GetRootNodeIndex': N('AdaptiveHuffmanTree_GetRootNodeIndex'),
        'IsLeaf': T('AdaptiveHuffmanTree_IsLeaf'), 'GetChildNode': T('AdaptiveHuffmanTree_GetChildNode'), 'GetNodeData': T('AdaptiveHuffmanTree_GetNodeData'),
        'AdaptiveHuffmanTree': N('AdaptiveHuffmanTree_make', recv='none'),
    },
    'functions': [
        _lz('HuffLZ', cname='HuffLZ_ctor', ctor=True), _lz('InitializeDecompressBuffer'),
        _lz('GetData', calls={'CopyAvailableData': N('HuffLZ_CopyAvailableData_U')}), _lz('GetInternalBuffer'), _lz('FillDecompressBuffer'), _lz('CopyAvailableData'), _lz('DecompressCode'),
        _lz('GetNextCode'), _lz('GetRepeatOffset', autos={'modifiers': 'OffsetModifiers', 'i': 'unsigned int'}), _lz('WriteCharToBuffer'),
        _lz('GetOffsetModifiers', static=True, ret_cxx='OffsetModifiers'),
    ],
})

# --------------------------------------------------------------------------- U-BMPH  (bitmap / tileset / PRT header arithmetic and validators)
def ARR(name, elem, n):
    return 'typedef struct %s { %s e[%d]; } %s;' % (name, elem, n, name)
TAG_T = 'typedef struct Tag { char text[4]; } Tag;'
IH = 'src/Bitmap/ImageHeader.cpp'; BH = 'src/Bitmap/BmpHeader.cpp'; BF = 'src/Bitmap/BitmapFile.cpp'; BR_ = 'src/Bitmap/IndexedBmpReader.cpp'; BW_ = 'src/Bitmap/IndexedBmpWriter.cpp'
BMP_TM = {'ImageHeader': 'ImageHeader', 'ImageHeaderV4': 'ImageHeaderV4', 'ImageHeaderV5': 'ImageHeaderV5', 'BmpHeader': 'BmpHeader', 'BmpCompression': 'BmpCompression', 'Color': 'Color',
          'std::array<char,2>': 'arr_char_2', 'std::array<uint16_t,6>': 'arr_u16_6', 'std::vector<Color>': 'vec_Color', 'std::vector<uint8_t>': 'vec_u8',
          'BitmapFile': 'BitmapFile', 'ScanLineOrientation': 'ScanLineOrientation', 'std::string': 'str'}
def _ih(name, **kw):
    d = {'file': IH, 'qual': 'ImageHeader::' + name, 'cls': 'ImageHeader', 'cname': 'ImageHeader_' + name}
    d.update(kw); return d
def _bf(name, **kw):
    d = {'file': BF, 'qual': 'BitmapFile::' + name, 'cls': 'BitmapFile', 'cname': 'BitmapFile_' + name}
    d.update(kw); return d
BMP_STRUCTS = [ARR('arr_char_2', 'char', 2), ARR('arr_u16_6', 'uint16_t', 6), ('src/Bitmap/Color.h', 'Color'), ('src/Bitmap/ImageHeader.h', 'ImageHeader'),
               ('src/Bitmap/ImageHeader.h', 'ImageHeaderV4'), ('src/Bitmap/ImageHeader.h', 'ImageHeaderV5'),
               ('src/Bitmap/BmpHeader.h', 'BmpHeader'), VIEW('vec_Color', 'Color'), VIEW('vec_u8', 'uint8_t'), ('src/Bitmap/BitmapFile.h', 'BitmapFile')]
BMP_GLOBALS = [
    {'file': IH, 'qual': 'ImageHeader::DefaultPlanes', 'ctype': 'uint16_t', 'cname': 'ImageHeader_DefaultPlanes'},
    {'file': IH, 'qual': 'ImageHeader::DefaultImageSize', 'ctype': 'uint32_t', 'cname': 'ImageHeader_DefaultImageSize'},
    {'file': IH, 'qual': 'ImageHeader::DefaultXResolution', 'ctype': 'uint32_t', 'cname': 'ImageHeader_DefaultXResolution'},
    {'file': IH, 'qual': 'ImageHeader::DefaultYResolution', 'ctype': 'uint32_t', 'cname': 'ImageHeader_DefaultYResolution'},
    {'file': IH, 'qual': 'ImageHeader::DefaultUsedColorMapEntries', 'ctype': 'uint32_t', 'cname': 'ImageHeader_DefaultUsedColorMapEntries'},
    {'file': IH, 'qual': 'ImageHeader::DefaultImportantColorCount', 'ctype': 'uint32_t', 'cname': 'ImageHeader_DefaultImportantColorCount'},
    {'file': IH, 'qual': 'ImageHeader::ValidBitCounts', 'ctype': 'arr_u16_6', 'cname': 'ImageHeader_ValidBitCounts'},
    {'file': BH, 'qual': 'BmpHeader::FileSignature', 'ctype': 'arr_char_2', 'cname': 'BmpHeader_FileSignature'},
    {'file': BH, 'qual': 'BmpHeader::DefaultReserved1', 'ctype': 'uint16_t', 'cname': 'BmpHeader_DefaultReserved1'},
    {'file': BH, 'qual': 'BmpHeader::DefaultReserved2', 'ctype': 'uint16_t', 'cname': 'BmpHeader_DefaultReserved2'},
]
BMP_CALLS = {
    'VerifyValidBitCount': {0: T('ImageHeader_VerifyValidBitCount0'), 1: T('ImageHeader_VerifyValidBitCount', recv='none')},
    'IsValidBitCount': {0: N('ImageHeader_IsValidBitCount0'), 1: N('ImageHeader_IsValidBitCount', recv='none')},
    'IsIndexedImage': {0: N('ImageHeader_IsIndexedImage0'), 1: N('ImageHeader_IsIndexedImage', recv='none')},
    'CalculatePitch': {0: N('ImageHeader_CalculatePitch0'), 2: N('ImageHeader_CalculatePitch', recv='none')},
    'CalcPixelByteWidth': {0: N('ImageHeader_CalcPixelByteWidth0'), 2: N('ImageHeader_CalcPixelByteWidth', recv='none')},
    'CalcMaxIndexedPaletteSize': {0: T('ImageHeader_CalcMaxIndexedPaletteSize0'), 1: T('ImageHeader_CalcMaxIndexedPaletteSize', recv='none')},
    'IsValidFileSignature': N('BmpHeader_IsValidFileSignature'),
    'VerifyFileSignature': T('BmpHeader_VerifyFileSignature'),
    'Validate': T('ImageHeader_Validate'),
    'VerifyIndexedPaletteSizeDoesNotExceedBitCount': {0: T('BitmapFile_VerifyIndexedPaletteSizeDoesNotExceedBitCount0'), 2: T('BitmapFile_VerifyIndexedPaletteSizeDoesNotExceedBitCount', recv='none')},
    'VerifyPixelSizeMatchesImageDimensionsWithPitch': {0: T('BitmapFile_VerifyPixelSizeMatchesImageDimensionsWithPitch0'), 4: T('BitmapFile_VerifyPixelSizeMatchesImageDimensionsWithPitch', recv='none')},
    'AbsoluteHeight': N('BitmapFile_AbsoluteHeight'),
    'SwapRedAndBlue': N('Color_SwapRedAndBlue'),
}
unit({
    'name': 'bmph',
    'includes': ['kr.h', 'wr.h'],
    'ctor_calls': {'vec_u8': {'fn': 'vec_u8_ctor_fill', 'throws': True}},
    'default_ctors': {'BitmapFile': 'BitmapFile_ctor0', 'vec_u8': 'vec_u8_ctor0'},
    'typemap': dict(BMP_TM, **{'Stream::Writer': 'Wr', 'Stream::BidirectionalReader': 'Rd'}),
    'enums': [('src/Bitmap/BmpCompression.h', 'BmpCompression'), ('src/Bitmap/BitmapFile.h', 'ScanLineOrientation')],
    'structs': [STR_VIEW] + BMP_STRUCTS,
    'globals': BMP_GLOBALS + [{'file': 'src/Bitmap/Color.h', 'qual': 'Black', 'ctype': 'Color', 'cname': 'DiscreteColor_Black'}],
    'scoped': {'BmpCompression': 'BmpCompression', 'ScanLineOrientation': 'ScanLineOrientation', 'ImageHeader': 'ImageHeader', 'BmpHeader': 'BmpHeader', 'DiscreteColor': 'DiscreteColor'},
    'calls': BMP_CALLS,
    'functions': [
        _ih('Create', static=True), _ih('IsValidBitCount', nparams=1, static=True), _ih('IsIndexedImage', nparams=1, static=True),
        _ih('VerifyValidBitCount', nparams=1, static=True), _ih('CalculatePitch', nparams=2, static=True, autos={'bytesOfPixelsPerRow': 'size_t'}),
        _ih('CalcPixelByteWidth', nparams=2, static=True), _ih('CalcMaxIndexedPaletteSize', nparams=1, static=True),
        _ih('CalcMaxIndexedPaletteSize', nparams=0, cname='ImageHeader_CalcMaxIndexedPaletteSize0'),
        _ih('Validate'),
        {'file': BH, 'qual': 'BmpHeader::Create', 'cls': 'BmpHeader', 'static': True, 'cname': 'BmpHeader_Create'},
        {'file': BH, 'qual': 'BmpHeader::IsValidFileSignature', 'cls': 'BmpHeader', 'cname': 'BmpHeader_IsValidFileSignature'},
        {'file': BH, 'qual': 'BmpHeader::VerifyFileSignature', 'cls': 'BmpHeader', 'cname': 'BmpHeader_VerifyFileSignature'},
        _bf('VerifyIndexedPaletteSizeDoesNotExceedBitCount', nparams=2, static=True),
        _bf('VerifyPixelSizeMatchesImageDimensionsWithPitch', nparams=4, static=True),
        _bf('VerifyIndexedImageForSerialization', static=True),
        _bf('GetScanLineOrientation'), _bf('AbsoluteHeight'),
        _bf('InvertScanLines', calls={'reserve': N('vec_u8_reserve'), 'end': N('vec_u8_end'), 'begin': N('vec_u8_begin'), 'insert': {3: T('vec_u8_insert_range')},
                                     'CalculatePitch': {0: N('ImageHeader_CalculatePitch0')}, 'AbsoluteHeight': N('BitmapFile_AbsoluteHeight')},
            views=[(r'self->pixels', 'vec'), (r'invertedPixels', 'vec')]),
        _bf('CreateIndexed', nparams=3, static=True, members={}, ret_cxx='BitmapFile',
            calls={'Create': [(r'ImageHeader', T('ImageHeader_Create', recv='none')), (r'BmpHeader', N('BmpHeader_Create', recv='none'))],
                   'resize': [(r'.*palette', T('vec_Color_resize')), (r'.*pixels', T('vec_u8_resize'))],
                   'CalcMaxIndexedPaletteSize': {0: T('ImageHeader_CalcMaxIndexedPaletteSize0')}, 'CalculatePitch': {0: N('ImageHeader_CalculatePitch0')}},
            views=[(r'bitmapFile\.palette', 'vec'), (r'bitmapFile\.pixels', 'vec')]),
        {'file': 'src/Bitmap/Color.cpp', 'qual': 'Color::SwapRedAndBlue', 'cls': 'Color', 'cname': 'Color_SwapRedAndBlue'},
        {'file': BR_, 'qual': 'BitmapFile::ReadBmpHeader', 'cls': 'BitmapFile', 'static': True, 'cname': 'BitmapFile_ReadBmpHeader', 'members': {}, 'ret_cxx': 'BmpHeader',
         'calls': {'Read': {1: T('Rd_Read', args=['obj'])}, 'Length': N('Rd_Length')}},
        {'file': BR_, 'qual': 'BitmapFile::ReadImageHeader', 'cls': 'BitmapFile', 'static': True, 'cname': 'BitmapFile_ReadImageHeader', 'members': {}, 'ret_cxx': 'ImageHeader',
         'calls': {'Read': {1: T('Rd_Read', args=['obj'])}, 'VerifyIndexedImageForSerialization': T('BitmapFile_VerifyIndexedImageForSerialization', recv='none')}},
        {'file': BR_, 'qual': 'BitmapFile::ReadPalette', 'cls': 'BitmapFile', 'static': True, 'cname': 'BitmapFile_ReadPalette', 'members': {},
         'calls': {'Read': {1: T('Rd_Read', args=['vec'])}, 'clear': N('vec_Color_clear'), 'resize': T('vec_Color_resize'), 'CalcMaxIndexedPaletteSize': {0: T('ImageHeader_CalcMaxIndexedPaletteSize0')}},
         'views': [(r'\(\*bitmapFile\)\.palette', 'vec')]},
        {'file': BR_, 'qual': 'BitmapFile::ReadPixels', 'cls': 'BitmapFile', 'static': True, 'cname': 'BitmapFile_ReadPixels', 'members': {},
         'calls': {'Read': {1: T('Rd_Read', args=['vec'])}, 'clear': N('vec_u8_clear'), 'resize': T('vec_u8_resize')}, 'views': [(r'\(\*bitmapFile\)\.pixels', 'vec')]},
        {'file': BR_, 'qual': 'BitmapFile::ReadIndexed', 'cls': 'BitmapFile', 'static': True, 'cname': 'BitmapFile_ReadIndexed', 'members': {}, 'ret_cxx': 'BitmapFile', 'ordinal': 1,
         'calls': {'ReadBmpHeader': T('BitmapFile_ReadBmpHeader', recv='none', args=['ref']), 'ReadImageHeader': T('BitmapFile_ReadImageHeader', recv='none', args=['ref']),
                   'ReadPalette': T('BitmapFile_ReadPalette', recv='none', args=['ref', 'ref']), 'ReadPixels': T('BitmapFile_ReadPixels', recv='none', args=['ref', 'ref'])}},
        {'file': BW_, 'qual': 'BitmapFile::WriteHeaders', 'cls': 'BitmapFile', 'static': True, 'cname': 'BitmapFile_WriteHeaders', 'members': {},
         'calls': {'Write': {1: T('Wr_Write', args=['obj'])}, 'Create': [(r'ImageHeader', T('ImageHeader_Create', recv='none')), (r'BmpHeader', N('BmpHeader_Create', recv='none'))]},
         'views': [(r'\(\*palette\)', 'vec')]},
        {'file': BW_, 'qual': 'BitmapFile::WriteIndexed', 'cls': 'BitmapFile', 'cname': 'BitmapFile_WriteIndexed', 'ordinal': 1,
         'calls': {'Write': {1: [(r'.*', T('Wr_Write', args=['vec']))]}, 'resize': {2: T('vec_Color_resize_fill', args=[None, None])},
                   'VerifyIndexedImageForSerialization': T('BitmapFile_VerifyIndexedImageForSerialization', recv='none'),
                   'WriteHeaders': T('BitmapFile_WriteHeaders', recv='none', args=['ref', None, None, None, 'ref']), 'WritePixels': T('BitmapFile_WritePixels', recv='none', args=['ref', 'ref', None, None, None])},
         'views': [(r'self->palette', 'vec'), (r'self->pixels', 'vec'), (r'paletteFullLength', 'vec')]},
        {'file': 'src/Bitmap/IndexedBmpWriter.cpp', 'qual': 'BitmapFile::WritePixels', 'cls': 'BitmapFile', 'static': True, 'cname': 'BitmapFile_WritePixels', 'members': {},
         'calls': {'Write': {2: T('Wr_Write'), 1: T('Wr_Write', args=['vec'])}}, 'views': [(r'\(\*pixels\)', 'vec'), (r'padding', 'vec')]},
    ],
})

# --------------------------------------------------------------------------- U-SPRH (tileset / PRT headers, validators)
TH = 'src/Sprite/TilesetHeaders.cpp'; TL = 'src/Sprite/TilesetLoader.cpp'
SPR_TM = dict(BMP_TM, **{'Tag': 'Tag', 'SectionHeader': 'SectionHeader', 'TilesetHeader': 'TilesetHeader', 'PpalHeader': 'PpalHeader', 'PaletteHeader': 'PaletteHeader',
                         'std::uint32_t': 'uint32_t', 'ImageMeta': 'ImageMeta', 'ImageType': 'ImageType', 'ArtFile': 'ArtFile', 'Palette8Bit': 'Palette8Bit',
                         'Point16': 'Point16', 'LayerMetadata': 'LayerMetadata', 'Layer': 'Layer', 'Frame': 'Frame', 'Animation::Frame': 'Frame', 'std::vector<Layer>': 'vec_Layer', 'Stream::Writer': 'Wr', 'Stream::Reader': 'Rd',
                         'std::vector<Palette8Bit>': 'vec_Palette8Bit', 'std::vector<ImageMeta>': 'vec_ImageMeta', 'std::vector<Animation>': 'vec_Animation'})
def _fn(file, qual, cname, **kw):
    d = {'file': file, 'qual': qual, 'cname': cname}; d.update(kw); return d
unit({
    'name': 'sprh',
    'includes': ['kr.h', 'wr.h'],
    'typemap': SPR_TM,
    'enums': [('src/Bitmap/BmpCompression.h', 'BmpCompression'), ('src/Bitmap/BitmapFile.h', 'ScanLineOrientation')],
    'structs': [STR_VIEW, TAG_T] + BMP_STRUCTS + [('src/Sprite/SectionHeader.h', 'SectionHeader'), ('src/Sprite/TilesetHeaders.h', 'TilesetHeader'), ('src/Sprite/TilesetHeaders.h', 'PpalHeader'),
                ('src/Sprite/PaletteHeader.h', 'PaletteHeader'), 'typedef struct Palette8Bit { Color e[256]; } Palette8Bit;',
                ('src/Sprite/ImageMeta.h', 'ImageType'), ('src/Sprite/ImageMeta.h', 'ImageMeta'),
                ('src/Point.h', 'Point16'), ('src/Sprite/Animation.h', 'LayerMetadata'), ('src/Sprite/Animation.h', 'Layer'), VIEW('vec_Layer', 'Layer'), ('src/Sprite/Animation.h', 'Frame'),
                VIEW('vec_Palette8Bit', 'Palette8Bit'), VIEW('vec_ImageMeta', 'ImageMeta'), 'typedef struct Animation { char opaque[8]; } Animation;   /* OPAQUE placeholder (its size is irrelevant) in this unit: animations are only created, moved and counted by abstract callees; no field is read */', VIEW('vec_Animation', 'Animation'),
                ('src/Sprite/ArtFile.h', 'ArtFile')],
    'globals': BMP_GLOBALS + [
        {'file': 'src/Sprite/TilesetLoader.h', 'qual': 'TagFileSignature', 'ctype': 'Tag', 'cname': 'TagFileSignature'},
        {'file': 'src/Sprite/TilesetCommon.h', 'qual': 'DefaultTagData', 'ctype': 'Tag', 'cname': 'DefaultTagData'},
        {'file': 'src/Sprite/TilesetCommon.h', 'qual': 'DefaultPaletteHeaderSize', 'ctype': 'uint32_t', 'cname': 'DefaultPaletteHeaderSize'},
        {'file': 'src/Sprite/PaletteHeader.cpp', 'qual': 'TagSection', 'ctype': 'Tag', 'cname': 'TagSection'},
        {'file': 'src/Sprite/PaletteHeader.cpp', 'qual': 'TagHeader', 'ctype': 'Tag', 'cname': 'TagHeader'},
        {'file': 'src/Sprite/PaletteHeader.cpp', 'qual': 'TagData', 'ctype': 'Tag', 'cname': 'TagData'},
    ],
    'scoped': {'TilesetHeader': 'TilesetHeader', 'PpalHeader': 'PpalHeader', 'Tileset': '', 'PaletteHeader': 'PaletteHeader', 'ImageHeader': 'ImageHeader', 'ScanLineOrientation': 'ScanLineOrientation'},
    'throwing_calls': ('throwReadError',),
    'default_ctors': {'SectionHeader': 'SectionHeader_ctor0', 'PaletteHeader': 'PaletteHeader_ctor'},
    'ctor_calls': {'SectionHeader': {'fn': 'SectionHeader_ctor2', 'throws': False}},
    'calls': dict(BMP_CALLS, **{
        'SectionHeader': {2: N('SectionHeader_make', recv='none'), 1: N('SectionHeader_copy', recv='none')},
        'CalculatePixelHeaderLength': N('Tileset_CalculatePixelHeaderLength', recv='none'),
        'TotalLength': N('SectionHeader_TotalLength'),
        'Validate': [(r'.*(overallHeader|sectionHeader|dataHeader)', T('SectionHeader_Validate'))],
    }),
    'functions': [
        _fn('src/Sprite/SectionHeader.cpp', 'SectionHeader::SectionHeader', 'SectionHeader_ctor0', cls='SectionHeader', ctor=True, nparams=0),
        _fn('src/Sprite/SectionHeader.cpp', 'SectionHeader::SectionHeader', 'SectionHeader_ctor2', cls='SectionHeader', ctor=True, nparams=2),
        _fn('src/Sprite/SectionHeader.cpp', 'SectionHeader::Validate', 'SectionHeader_Validate', cls='SectionHeader'),
        _fn('src/Sprite/SectionHeader.h', 'TotalLength', 'SectionHeader_TotalLength', cls='SectionHeader', inclass='SectionHeader'),
        _fn(TH, 'TilesetHeader::Create', 'TilesetHeader_Create', cls='TilesetHeader', static=True),
        _fn(TH, 'TilesetHeader::Validate', 'TilesetHeader_Validate', cls='TilesetHeader'),
        _fn(TH, 'PpalHeader::Create', 'PpalHeader_Create', cls='PpalHeader', static=True),
        _fn(TH, 'PpalHeader::Validate', 'PpalHeader_Validate', cls='PpalHeader'),
        _fn(TL, 'ValidateFileSignatureHeader', 'Tileset_ValidateFileSignatureHeader', ordinal=0),
        _fn(TL, 'ValidatePaletteHeader', 'Tileset_ValidatePaletteHeader', ordinal=0),
        _fn(TL, 'ValidatePixelHeader', 'Tileset_ValidatePixelHeader', ordinal=0, autos={'expectedLength': 'uint32_t'}),
        _fn(TL, 'CalculatePbmpSectionSize', 'Tileset_CalculatePbmpSectionSize', ordinal=0),
        _fn(TL, 'CalculatePixelHeaderLength', 'Tileset_CalculatePixelHeaderLength', ordinal=0),
        _fn(TL, 'ValidateTileset', 'Tileset_ValidateTileset', ordinal=0),
        _fn(TL, 'ReadCustomTileset', 'Tileset_ReadCustomTileset', ordinal=1, ret_cxx='BitmapFile',
            calls={'Read': {1: [(r'bitmapFile\.(palette|pixels)', T('Rd_Read', args=['vec'])), (r'.*', T('Rd_Read', args=['obj']))]},
                   'Validate': [(r'tilesetHeader', T('TilesetHeader_Validate')), (r'ppalHeader', T('PpalHeader_Validate'))],
                   'ValidateFileSignatureHeader': T('Tileset_ValidateFileSignatureHeader', recv='none', args=['ref']), 'ValidatePaletteHeader': T('Tileset_ValidatePaletteHeader', recv='none', args=['ref']),
                   'ValidatePixelHeader': T('Tileset_ValidatePixelHeader', recv='none', args=['ref', None]), 'CreateIndexed': T('BitmapFile_CreateIndexed', recv='none'),
                   'SwapRedAndBlue': N('BitmapFile_SwapRedAndBlue'), 'ValidateTileset': T('Tileset_ValidateTileset', recv='none', args=['ref'])},
            views=[(r'bitmapFile\.palette', 'vec'), (r'bitmapFile\.pixels', 'vec')]),
        _fn(TL, 'PeekIsCustomTileset', 'Tileset_PeekIsCustomTileset', ordinal=1, typemap={'Stream::BidirectionalReader': 'Rd'},
            calls={'Peek': {1: T('Rd_PeekTag', args=['obj'])}, 'Read': {1: T('Rd_Read', args=['obj'])}, 'SeekBeginning': T('Rd_SeekBeginning')}),
        _fn(TL, 'SwapPaletteRedAndBlue', 'Tileset_SwapPaletteRedAndBlue', ordinal=0, rangefor={'color': 'Color'}, views=[(r'\(\*palette\)', 'vec')]),
        _fn(TL, 'WriteCustomTileset', 'Tileset_WriteCustomTileset', ordinal=0,
            calls={'ValidateTileset': T('Tileset_ValidateTileset', recv='none', args=['ref']), 'GetScanLineOrientation': N('BitmapFile_GetScanLineOrientation'), 'InvertScanLines': N('BitmapFile_InvertScanLines'),
                   'AbsoluteHeight': N('BitmapFile_AbsoluteHeight'), 'CalculatePbmpSectionSize': N('Tileset_CalculatePbmpSectionSize', recv='none'),
                   'Create': [(r'TilesetHeader', T('TilesetHeader_Create', recv='none')), (r'PpalHeader', N('PpalHeader_Create', recv='none'))],
                   'SwapPaletteRedAndBlue': N('Tileset_SwapPaletteRedAndBlue', recv='none', args=['ref']),
                   'Write': {1: [(r'tileset\.(palette|pixels)', T('Wr_Write', args=['vec'])), (r'.*', T('Wr_Write', args=['obj']))]}},
            views=[(r'tileset\.palette', 'vec'), (r'tileset\.pixels', 'vec')]),
        _fn('src/Sprite/PaletteHeader.cpp', 'PaletteHeader::PaletteHeader', 'PaletteHeader_ctor', cls='PaletteHeader', ctor=True),
        _fn('src/Sprite/PaletteHeader.cpp', 'PaletteHeader::CreatePaletteHeader', 'PaletteHeader_CreatePaletteHeader', cls='PaletteHeader', static=True,
            calls={'PaletteHeader': N('PaletteHeader_default', recv='none')}),
        _fn('src/Sprite/PaletteHeader.cpp', 'PaletteHeader::Validate', 'PaletteHeader_Validate', cls='PaletteHeader'),
        _fn('src/Sprite/ArtWriter.cpp', 'ArtFile::Write', 'ArtFile_Write', cls='ArtFile', ordinal=1,
            calls={'ValidateImageMetadata': T('ArtFile_ValidateImageMetadata_U'), 'WritePalettes': T('ArtFile_WritePalettes_U', args=['ref']), 'WriteAnimations': T('ArtFile_WriteAnimations_U', args=['ref']),
                   'Write': {('uint32_t', 1): T('Writer_WriteSized_u32_vec_ImageMeta', args=['ref'])}}),
        _fn('src/Sprite/ArtWriter.cpp', 'ArtFile::WriteAnimations', 'ArtFile_WriteAnimations', cls='ArtFile', rangefor={'animation': 'Animation'},
            calls={'Write': {1: [(r'.*', T('Wr_Write', args=['objtmp']))]}, 'CountFrames': N('ArtFile_CountFrames_U', args=['ref', 'ref', 'ref']), 'WriteAnimation': T('ArtFile_WriteAnimation_U', recv='none', args=['ref', 'ref'])},
            views=[(r'self->animations', 'vec')]),
        _fn('src/Sprite/ArtWriter.cpp', 'ArtFile::WriteFrame', 'ArtFile_WriteFrame', cls='ArtFile', static=True,
            calls={'Write': {1: [(r'\(\*frame\)\.layers', T('Wr_Write', args=['vec'])), (r'.*', T('Wr_Write', args=['objtmp']))]}}, views=[(r'\(\*frame\)\.layers', 'vec')]),
        _fn('src/Sprite/ArtReader.cpp', 'ArtFile::ReadFrame', 'ArtFile_ReadFrame', cls='ArtFile', static=True, ret_cxx='Frame',
            calls={'Read': {1: [(r'frame\.layers', T('Rd_Read', args=['vec'])), (r'.*', T('Rd_Read', args=['obj']))], }, 'resize': T('vec_Layer_resize')}, views=[(r'frame\.layers', 'vec')]),
        _fn('src/Sprite/ArtReader.cpp', 'ArtFile::ReadAnimations', 'ArtFile_ReadAnimations', cls='ArtFile', static=True, typemap={'Animation': 'Animation'},
            calls={'Read': {1: [(r'.*', T('Rd_ReadU32T', args=['obj']))]}, 'resize': T('vec_Animation_resize'), 'ReadAnimation': T('ArtFile_ReadAnimation_U', recv='none', args=['ref']),
                   'VerifyCountsMatchHeader': T('ArtFile_VerifyCountsMatchHeader_U', recv='none', args=['ref', None, None, None])},
            views=[(r'\(\*artFile\)\.animations', 'vec')]),
        _fn('src/Sprite/ArtReader.cpp', 'ArtFile::Read', 'ArtFile_Read', cls='ArtFile', static=True, ordinal=1, ret_cxx='ArtFile',
            calls={'ReadPalette': T('ArtFile_ReadPalette_U', recv='none', args=['ref', 'ref']), 'ReadImageMetadata': T('ArtFile_ReadImageMetadata_U', recv='none', args=['ref', 'ref']),
                   'ReadAnimations': T('ArtFile_ReadAnimations_U', recv='none', args=['ref', 'ref'])}),
        _fn('src/Sprite/ArtReader.cpp', 'ArtFile::VerifyCountsMatchHeader', 'ArtFile_VerifyCountsMatchHeader', cls='ArtFile', static=True,
            calls={'CountFrames': N('ArtFile_CountFrames_U', args=['ref', 'ref', 'ref'])}),
        _fn('src/Sprite/ArtReader.cpp', 'ArtFile::ReadImageMetadata', 'ArtFile_ReadImageMetadata', cls='ArtFile', static=True,
            calls={'Read': {('uint32_t', 1): T('Reader_ReadSized_u32_vec_ImageMeta', args=['ref'])}, 'ValidateImageMetadata': T('ArtFile_ValidateImageMetadata_R')},
            views=[(r'\(\*artFile\)\.imageMetas', 'vec'), (r'\(\*artFile\)\.palettes', 'vec')]),
        _fn('src/Sprite/ArtFile.cpp', 'ArtFile::VerifyImageIndexInBounds', 'ArtFile_VerifyImageIndexInBounds', cls='ArtFile'),
        _fn('src/Sprite/ArtFile.cpp', 'ArtFile::ValidateImageMetadata', 'ArtFile_ValidateImageMetadata', cls='ArtFile', rangefor={'imageMeta': 'ImageMeta'}),
    ],
})

# --------------------------------------------------------------------------- U-SPRA (PRT animation records: ReadAnimation / WriteAnimation with the REAL Animation struct)
unit({
    'name': 'spra',
    'includes': ['kr.h', 'wr.h'],
    'typemap': {'std::uint32_t': 'uint32_t', 'Point16': 'Point16', 'Point32': 'Point32', 'Rect': 'Rect', 'LayerMetadata': 'LayerMetadata', 'Layer': 'Layer', 'Frame': 'Frame', 'Animation::Frame': 'Frame',
                'UnknownContainer': 'UnknownContainer', 'Animation': 'Animation', 'std::vector<Layer>': 'vec_Layer', 'std::vector<Frame>': 'vec_Frame', 'std::vector<UnknownContainer>': 'vec_UnknownContainer',
                'Stream::Writer': 'Wr', 'Stream::Reader': 'Rd'},
    'structs': [STR_VIEW, ('src/Point.h', 'Point16'), ('src/Point.h', 'Point32'), ('src/Rect.h', 'Rect'), ('src/Sprite/Animation.h', 'LayerMetadata'), ('src/Sprite/Animation.h', 'Layer'), VIEW('vec_Layer', 'Layer'),
                ('src/Sprite/Animation.h', 'Frame'), VIEW('vec_Frame', 'Frame'), ('src/Sprite/Animation.h', 'UnknownContainer'), VIEW('vec_UnknownContainer', 'UnknownContainer'), ('src/Sprite/Animation.h', 'Animation')],
    'functions': [
        _fn('src/Sprite/ArtReader.cpp', 'ArtFile::ReadAnimation', 'ArtFile_ReadAnimation', cls='ArtFile', static=True, ret_cxx='Animation',
            calls={'Read': {1: [(r'animation\.unknown2?\s*$|frameCount', T('Rd_ReadU32T', args=['obj'])), (r'.*', T('Rd_Read', args=['obj']))], ('uint32_t', 1): T('Reader_ReadSized_u32_vec_UnknownContainer', args=['ref'])}, 'resize': T('vec_Frame_resize'),
                   'ReadFrame': T('ArtFile_ReadFrame', recv='none', args=['ref'])},
            views=[(r'animation\.frames', 'vec'), (r'animation\.unknownContainer', 'vec')]),
        _fn('src/Sprite/ArtWriter.cpp', 'ArtFile::WriteAnimation', 'ArtFile_WriteAnimation', cls='ArtFile', static=True, rangefor={'frame': 'Frame'},
            calls={'Write': {1: [(r'.*', T('Wr_Write', args=['objtmp']))], ('uint32_t', 1): T('Writer_WriteSized_u32_vec_UnknownContainer', args=['ref'])},
                   'WriteFrame': T('ArtFile_WriteFrame', recv='none', args=['ref', 'ref'])},
            views=[(r'\(\*animation\)\.frames', 'vec'), (r'\(\*animation\)\.unknownContainer', 'vec')]),
    ],
})

# --------------------------------------------------------------------------- U-WRT (Writer.h / Reader.h template helpers over the abstract stream contracts)
WH = 'src/Stream/Writer.h'; RH = 'src/Stream/Reader.h'
def _wr(ordinal, cname, **kw):
    d = {'file': WH, 'qual': 'Write', 'inclass': 'Writer', 'ordinal': ordinal, 'cls': 'Wr', 'cname': cname, 'members': {}}
    d.update(kw); return d
def _rdh(ordinal, cname, **kw):
    d = {'file': RH, 'qual': 'Read', 'inclass': 'Reader', 'ordinal': ordinal, 'cls': 'Rd', 'cname': cname, 'members': {}}
    d.update(kw); return d
unit({
    'name': 'wrt',
    'includes': ['kr.h', 'wr.h'],
    'typemap': {'Reader': 'Rd', 'std::array<char,BufferSize>': 'chunk_buf', 'std::string': 'str'},
    'structs': [STR_VIEW, VIEW('vec_u8', 'uint8_t'), VIEW('vec_u32', 'uint32_t'), VIEW('str16', 'uint16_t'), ('src/Stream/Writer.h', 'Writer', {'cname': 'WriterCls'}),
                'typedef struct chunk_buf { char* e; } chunk_buf;'],
    'default_ctors': {'chunk_buf': 'chunk_buf_init'},
    'calls': {
        'WriteImplementation': T('Wr_WriteImplementation'),
        'ReadImplementation': T('Rd_Read'),
        'ReadPartial': N('Rd_ReadPartial'),
        'max_size': N('OP2_VEC_MAX_SIZE', recv='none'),
    },
    'functions': [
        _wr(0, 'Writer_Write'),
        _wr(5, 'Writer_WriteReader', calls={'Write': {2: T('Writer_Write')}}, views=[('buffer', 'arr')]),
    ] + [
        _wr(3, 'Writer_WriteSized_%s_vec_u8' % tag_, tbind={'T': 'vec_u8'}, typemap={'SizeType': st_}, autos={'containerSize': 'size_t'},
            calls={'Write': {1: [(r'\(\*container\)|container', T('Writer_Write', args=['vec'])), (r'.*', T('Writer_Write', args=['objtmp']))]}})
        for tag_, st_ in (('u32', 'uint32_t'), ('u16', 'uint16_t'), ('u8', 'uint8_t'), ('i16', 'int16_t'), ('i8', 'int8_t'))
    ] + [
        _rdh(0, 'Reader_Read'),
        _rdh(3, 'Reader_Read_u16string', typemap={'std::basic_string<CharT,Traits,Allocator>': 'str16', 'CharT': 'uint16_t'}, calls={'Read': {2: T('Reader_Read')}}, views=[(r'\(\*string\)', 'vec')]),
        _rdh(2, 'Reader_Read_vec_u32', tbind={'T': 'vec_u32'}, typemap={'typename T::value_type': 'uint32_t', 'T::value_type': 'uint32_t'}, views=[(r'\(\*container\)', 'vec')]),
    ],
})

# --------------------------------------------------------------------------- U-DYNW (DynamicMemoryWriter over the std::vector model)
DW = 'src/Stream/DynamicMemoryWriter.cpp'
def _dw(name, **kw):
    d = {'file': DW, 'qual': 'DynamicMemoryWriter::' + name, 'cls': 'DynamicMemoryWriter', 'cname': 'DynamicMemoryWriter_' + name}
    d.update(kw); return d
unit({
    'name': 'dynw',
    'includes': ['kr.h', 'vecmodel.h'],
    'typemap': {'DynamicMemoryWriter': 'DynamicMemoryWriter', 'std::vector<uint8_t>': 'vec_u8', 'SizeType': 'size_t', 'MemoryReader': 'MemoryReader'},
    'structs': [('src/Stream/MemoryReader.h', 'MemoryReader'), ('src/Stream/DynamicMemoryWriter.h', 'DynamicMemoryWriter')],
    'calls': {'resize': {1: T('vec_u8_resize'), 2: T('vec_u8_resize_fill')}, 'reserve': N('vec_u8_reserve'), 'MemoryReader': N('MemoryReader_make', recv='none')},
    'functions': [
        _dw('WriteImplementation', autos={'streamSize': 'size_t'}), _dw('Length'), _dw('Position'),
        _dw('SeekForward', autos={'streamSize': 'size_t'}), _dw('SeekBackward', autos={'streamSize': 'size_t'}), _dw('Seek'), _dw('GetReader'),
    ],
})

# --------------------------------------------------------------------------- U-FILEW (FileWriter::TranslateFlags against the C++ open-mode table)
unit({
    'name': 'filew',
    'typemap': {'std::ios_base::openmode': 'OP2_IOS_openmode', 'OpenMode': 'OpenMode', 'std::string': 'str', 'FileWriter': 'FileWriter'},
    'enums': [('src/Stream/FileWriter.h', 'OpenMode')],
    'structs': [STR_VIEW],
    'scoped': {'OpenMode': 'OpenMode', 'XFile': ''},
    'calls': {'PathExists': N('XFile_PathExists', recv='none', args=['ref'])},
    'functions': [
        {'file': 'src/Stream/FileWriter.cpp', 'qual': 'FileWriter::TranslateFlags', 'cls': 'FileWriter', 'static': True, 'cname': 'FileWriter_TranslateFlags', 'ret_cxx': 'std::ios_base::openmode', 'members': {}},
    ],
})

# --------------------------------------------------------------------------- U-VOLW (VolFile: archive creation)
VF = 'src/Archive/VolFile.cpp'; VH = 'src/Archive/VolFile.h'
VOL_TM = {'Tag': 'Tag', 'CompressionType': 'CompressionType', 'VolPadding': 'VolPadding', 'IndexEntry': 'VolIndexEntry', 'SectionHeader': 'VolSectionHeader',
          'VolFile::SectionHeader': 'VolSectionHeader', 'CreateVolumeInfo': 'CreateVolumeInfo', 'std::string': 'str', 'std::vector<std::string>': 'vec_str',
          'std::vector<IndexEntry>': 'vec_VolIndexEntry', 'std::vector<std::unique_ptr<Stream::BidirectionalReader>>': 'vec_Rf',
          'Stream::Writer': 'Wr', 'Stream::FileWriter': 'FileWriterT', 'std::size_t': 'size_t'}
VOL_VIEWS = [(r'\(\*volInfo\)\.indexEntries', 'vec'), (r'\(\*volInfo\)\.names', 'vec'), (r'\(\*volInfo\)\.filesToPack', 'vec'), (r'\(\*volInfo\)\.fileStreamReaders', 'vecptr'),
             (r'\(\*volInfo\)\.names\.data\[[^\]]*\]', 'str'), (r'\(\*path\)', 'str')]
def _vf(name, **kw):
    d = {'file': VF, 'qual': 'VolFile::' + name, 'cls': 'VolFile', 'static': True, 'cname': 'VolFile_' + name, 'members': {}}
    d.update(kw); return d
unit({
    'name': 'volw',
    'includes': ['kr.h', 'wr.h', 'volw.h'],
    'typemap': VOL_TM,
    'enums': [('src/Archive/CompressionType.h', 'CompressionType'), (VH, 'VolPadding')],
    'structs': [STR_VIEW, TAG_T, VIEW('vec_str', 'str'), (VH, 'IndexEntry', {'cname': 'VolIndexEntry'}), (VH, 'SectionHeader', {'cname': 'VolSectionHeader'}),
                VIEW('vec_VolIndexEntry', 'VolIndexEntry'), 'typedef struct Rf { uint64_t len; uint64_t pos; } Rf;   /* framing view of an input stream */', VIEW('vec_Rf', 'Rf'),
                (VH, 'CreateVolumeInfo')],
    'globals': [{'file': VF, 'qual': 'Tag' + t_, 'ctype': 'Tag', 'cname': 'Tag' + t_} for t_ in ('VOL_', 'VOLH', 'VOLS', 'VOLI', 'VBLK')],
    'scoped': {'CompressionType': 'CompressionType', 'VolPadding': 'VolPadding', 'XFile': ''},
    'views': VOL_VIEWS,
    'vecptr_types': ('vec_Rf',),
    'ctor_calls': {'FileWriterT': {'fn': 'FileWriter_ctor', 'throws': True}},
    'default_ctors': {'CreateVolumeInfo': 'CreateVolumeInfo_ctor'},
    'calls': {
        'fileCount': N('CreateVolumeInfo_fileCount'),
        'OpenAllInputFiles': T('VolFile_OpenAllInputFiles', recv='none', args=['ref', 'ref']),
        'Length': N('Rf_Length'),
        'push_back': T('vec_VolIndexEntry_push_back'),
        'SectionHeader': {2: N('VolSectionHeader_make2', recv='none'), 3: N('VolSectionHeader_make3', recv='none')},
        'Write': {1: [(r'(Vol)?SectionHeader.*|\(\*volInfo\)\.stringTableLength', T('Wr_Write', args=['objtmp'])), (r'\*\s*\(\*volInfo\)\.fileStreamReaders.*', T('Wr_WriteReaderF', args=['ref']))],
                  2: T('Wr_Write')},
        'PathsAreEqual': N('XFile_PathsAreEqual', recv='none', args=['ref', 'ref']),
        'WriteHeader': T('VolFile_WriteHeader', recv='none', args=['ref', 'ref']),
        'WriteFiles': T('VolFile_WriteFiles', recv='none', args=['ref', 'ref']),
    },
    'functions': [
        {'file': VF, 'qual': 'VolFile::SectionHeader::SectionHeader', 'nparams': 3, 'cls': 'VolSectionHeader', 'ctor': True, 'cname': 'VolSectionHeader_ctor3'},
        {'file': VH, 'qual': 'fileCount', 'inclass': 'CreateVolumeInfo', 'cls': 'CreateVolumeInfo', 'cname': 'CreateVolumeInfo_fileCount'},
        _vf('PrepareHeader', rangefor={}),
        _vf('WriteHeader'),
        _vf('WriteFiles'),
        _vf('WriteVolume', rangefor={'path': 'str'}),
        _vf('CreateArchive',
            calls={'GetNamesFromPaths': N('ArchiveFile_GetNamesFromPaths', recv='none', args=['ref']), 'VerifySortedContainerHasNoDuplicateNames': T('ArchiveFile_VerifySortedContainerHasNoDuplicateNames', recv='none', args=['ref']),
                   'PrepareHeader': T('VolFile_PrepareHeader_U', recv='none', args=['ref', 'ref']), 'WriteVolume': T('VolFile_WriteVolume_U', recv='none', args=['ref', 'ref'])}),
    ],
})

# --------------------------------------------------------------------------- U-CLM (ClmFile / WaveFile)
CF = 'src/Archive/ClmFile.cpp'; CH = 'src/Archive/ClmFile.h'; WFH = 'src/Archive/WaveFile.h'
CLM_TM = {'Tag': 'Tag', 'WaveFormatEx': 'WaveFormatEx', 'RiffHeader': 'RiffHeader', 'FormatChunk': 'FormatChunk', 'ChunkHeader': 'ChunkHeader', 'WaveHeader': 'WaveHeader',
          'ClmHeader': 'ClmHeader', 'ClmFile::ClmHeader': 'ClmHeader', 'IndexEntry': 'ClmIndexEntry', 'std::array<char,32>': 'arr_char_32', 'std::array<char,6>': 'arr_char_6',
          'std::array<char,8>': 'arr_char_8', 'std::string': 'str', 'std::vector<std::string>': 'vec_str', 'std::vector<IndexEntry>': 'vec_ClmIndexEntry',
          'std::vector<WaveFormatEx>': 'vec_WaveFormatEx', 'Stream::BidirectionalReader': 'Rd'}
def _cf(name, **kw):
    d = {'file': CF, 'qual': 'ClmFile::' + name, 'cls': 'ClmFile', 'static': True, 'cname': 'ClmFile_' + name, 'members': {}}
    d.update(kw); return d
unit({
    'name': 'clm',
    'includes': ['kr.h', 'kf.h', 'wr.h', 'volw.h'],
    'vecptr_types': ('vec_Fr',),
    'ctor_calls': {'FileWriterT': {'fn': 'FileWriter_ctor', 'throws': True}, 'vec_WaveFormatEx': {'fn': 'vec_WaveFormatEx_ctor_n', 'throws': True}, 'vec_ClmIndexEntry': {'fn': 'vec_ClmIndexEntry_ctor_n', 'throws': True}},
    'default_ctors': {'vec_Fr': 'vec_Fr_ctor0'},
    'typemap': CLM_TM,
    'structs': [STR_VIEW, TAG_T, VIEW('vec_str', 'str'), ARR('arr_char_32', 'char', 32), ARR('arr_char_6', 'char', 6), ARR('arr_char_8', 'char', 8),
                (WFH, 'WaveFormatEx'), (WFH, 'RiffHeader'), (WFH, 'FormatChunk'), (WFH, 'ChunkHeader'), (WFH, 'WaveHeader'),
                (CH, 'ClmHeader'), (CH, 'IndexEntry', {'cname': 'ClmIndexEntry'}), VIEW('vec_ClmIndexEntry', 'ClmIndexEntry'), VIEW('vec_WaveFormatEx', 'WaveFormatEx'), VIEW('vec_Fr', 'Fr')],
    'globals': [{'file': WFH, 'qual': 'tag' + t_, 'ctype': 'Tag', 'cname': 'tag' + t_} for t_ in ('RIFF', 'WAVE', 'FMT_', 'DATA')] + [
        {'file': CF, 'qual': 'standardFileVersion', 'ctype': 'arr_char_32', 'cname': 'standardFileVersion'},
        {'file': CF, 'qual': 'standardUnknown', 'ctype': 'arr_char_6', 'cname': 'standardUnknown'}],
    'scoped': {'ClmHeader': 'ClmHeader', 'IndexEntry': 'ClmIndexEntry'},
    'views': [(r'\(\*indexEntries\)\.data\[[^\]]*\]\.filename', 'arr'), (r'\(\*names\)\.data\[[^\]]*\]', 'str')],
    'calls': {
        'Length': N('Rd_Length'), 'Seek': T('Rd_Seek'),
        'Read': {1: T('Rd_Read', args=['obj'])},
        'CheckFileVersion': N('ClmHeader_CheckFileVersion'), 'CheckUnknown': N('ClmHeader_CheckUnknown'),
        'memcmp': N('op2_memcmp', recv='none'), 'strncpy': N('op2_strncpy', recv='none'),
    },
    'functions': [
        {'file': 'src/Archive/WaveFile.cpp', 'qual': 'WaveHeader::Create', 'cls': 'WaveHeader', 'static': True, 'cname': 'WaveHeader_Create', 'members': {}},
        {'file': CF, 'qual': 'ClmFile::ClmHeader::MakeHeader', 'cls': 'ClmHeader', 'static': True, 'cname': 'ClmHeader_MakeHeader', 'ret_cxx': 'ClmHeader'},
        {'file': CF, 'qual': 'ClmFile::ClmHeader::CheckFileVersion', 'cls': 'ClmHeader', 'cname': 'ClmHeader_CheckFileVersion'},
        {'file': CF, 'qual': 'ClmFile::ClmHeader::CheckUnknown', 'cls': 'ClmHeader', 'cname': 'ClmHeader_CheckUnknown'},
        {'file': CF, 'qual': 'ClmFile::ClmHeader::VerifyFileVersion', 'cls': 'ClmHeader', 'cname': 'ClmHeader_VerifyFileVersion'},
        {'file': CF, 'qual': 'ClmFile::ClmHeader::VerifyUnknown', 'cls': 'ClmHeader', 'cname': 'ClmHeader_VerifyUnknown'},
        _cf('FindChunk', calls={'Read': {1: T('Rd_ReadHdr', args=['obj'])}}),      # the 8-byte chunk header read: K_R with the byte clause instantiated at indices 0..7
        _cf('ReadAllWaveHeaders', typemap={'std::vector<std::unique_ptr<Stream::FileReader>>': 'vec_Fr'},
            calls={'Read': {1: T('Fr_Read', args=['obj']), 2: T('Fr_Read')}, 'Length': N('Fr_Length'), 'FindChunk': T('ClmFile_FindChunk_F', recv='none', args=[None, 'ref'])},
            views=[(r'\(\*filesToPackReaders\)', 'vecptr'), (r'\(\*waveFormats\)', 'vec'), (r'\(\*indexEntries\)', 'vec')]),
        _cf('CreateArchive', typemap={'std::vector<std::unique_ptr<Stream::FileReader>>': 'vec_Fr'}, rangefor={'filename': 'str', 'name': 'str'},
            calls={'push_back': T('vec_Fr_open_push_back', args=['ref']), 'ReadAllWaveHeaders': T('ClmFile_ReadAllWaveHeaders_U', recv='none', args=['ref', 'ref', 'ref']),
                   'CompareWaveFormats': T('ClmFile_CompareWaveFormats_U', recv='none', args=['ref', 'ref']), 'GetNamesFromPaths': N('ArchiveFile_GetNamesFromPaths', recv='none', args=['ref']),
                   'StripFilenameExtensions': N('ClmFile_StripFilenameExtensions_U', recv='none'), 'VerifySortedContainerHasNoDuplicateNames': T('ArchiveFile_VerifySortedContainerHasNoDuplicateNames', recv='none', args=['ref']),
                   'PrepareWaveFormat': N('ClmFile_PrepareWaveFormat_U', recv='none', args=['ref']), 'WriteArchive': T('ClmFile_WriteArchive_U', recv='none', args=['ref', 'ref', 'ref', 'ref', None])},
            views=[(r'filesToPack', 'vec'), (r'names', 'vec'), (r'\(\*name\)', 'str')]),
        _cf('CompareWaveFormats'),
        _cf('PrepareIndex'),
        _cf('WriteArchive', typemap={'std::vector<std::unique_ptr<Stream::FileReader>>': 'vec_Fr', 'Stream::FileWriter': 'FileWriterT'},
            calls={'MakeHeader': N('ClmHeader_MakeHeader', recv='none', args=['ref']), 'PrepareIndex': T('ClmFile_PrepareIndex', recv='none', args=[None, 'ref', 'ref']),
                   'Write': {1: [(r'header', T('Wr_Write', args=['objtmp'])), (r'\(\*indexEntries\)', T('Wr_Write', args=['vec'])), (r'\*.*filesToPackReaders.*', T('Wr_WriteReaderFr', args=['ref'])), (r'slice', T('Wr_WriteSliceT', args=['ref']))]},
                   'Slice': {1: T('Fr_Slice1')}},
            views=[(r'\(\*filesToPackReaders\)', 'vecptr'), (r'\(\*indexEntries\)', 'vec'), (r'\(\*names\)', 'vec')]),
    ],
})

# --------------------------------------------------------------------------- U-ARCH (ArchiveFile: lookup by name, index checks, duplicate detection)
AF = 'src/Archive/ArchiveFile.cpp'
def _af(name, **kw):
    d = {'file': AF, 'qual': 'ArchiveFile::' + name, 'cls': 'ArchiveFile', 'cname': 'ArchiveFile_' + name}
    d.update(kw); return d
unit({
    'name': 'arch',
    'typemap': {'std::string': 'str', 'std::vector<std::string>': 'vec_str', 'ArchiveFile': 'ArchiveFile', 'std::size_t': 'size_t'},
    'structs': [STR_VIEW, VIEW('vec_str', 'str'), ('src/Archive/ArchiveFile.h', 'ArchiveFile')],
    'scoped': {'XFile': '', 'StringUtility': ''},
    'calls': {
        'GetCount': N('ArchiveFile_GetCount'), 'GetName': T('Arch_GetName'),
        'PathsAreEqual': N('XFile_PathsAreEqual', recv='none', args=[None, 'ref']),
        'IsEqual': N('StringUtility_IsEqual', recv='none', args=['ref', 'ref']),
    },
    'functions': [
        {'file': 'src/Archive/ArchiveFile.h', 'qual': 'GetCount', 'inclass': 'ArchiveFile', 'cls': 'ArchiveFile', 'cname': 'ArchiveFile_GetCount'},
        _af('GetIndex'), _af('Contains'), _af('VerifyIndexInBounds'),
        _af('VerifySortedContainerHasNoDuplicateNames', static=True),
        _af('ComparePathFilenames', static=True, calls={'GetFilename': N('XFile_GetFilename', recv='none'), 'IsEqualCaseInsensitive': N('StringUtility_IsEqualCaseInsensitive_U', recv='none')}),
    ],
})

# --------------------------------------------------------------------------- U-FILER (FileReader over an assumed std::ifstream model)
FR = 'src/Stream/FileReader.cpp'
def _fr(name, **kw):
    d = {'file': FR, 'qual': 'FileReader::' + name, 'cls': 'FileReader', 'cname': 'FileReader_' + name}
    d.update(kw); return d
unit({
    'name': 'filer',
    'includes': ['ifsmodel.h'],
    'typemap': {'std::ifstream': 'Ifs', 'std::string': 'str', 'FileReader': 'FileReader', 'FileSliceReader': 'FSlice'},
    'structs': [STR_VIEW, ('src/Stream/FileReader.h', 'FileReader')],
    'calls': {
        'read': N('Ifs_read'), 'gcount': N('Ifs_gcount'), 'tellg': N('Ifs_tellg'), 'clear': N('Ifs_clear'),
        'seekg': {1: N('Ifs_seekg'), 2: N('Ifs_seekg_end')},
        'Position': N('FileReader_Position'), 'SeekForward': T('FileReader_SeekForward'), 'Slice': {2: T('FileReader_Slice2')},
    },
    'text_subst': [(r'!\s*self->file\b(?!\.)', '!Ifs_ok(&self->file)')],
    'functions': [_fr('ReadImplementation'), _fr('ReadPartial'), _fr('Length'), _fr('Position'), _fr('Seek'), _fr('SeekForward'), _fr('SeekBackward'), _fr('Slice', nparams=1, cname='FileReader_Slice1')],
})

# --------------------------------------------------------------------------- U-VOLR (VolFile: reading side)
def _vr(name, **kw):
    d = {'file': VF, 'qual': 'VolFile::' + name, 'cls': 'VolFile', 'cname': 'VolFile_' + name}
    d.update(kw); return d
VOLR_TM = dict(VOL_TM, **{'Stream::FileReader': 'Fr', 'VolFile': 'VolFile', 'std::unique_ptr<Stream::BidirectionalReader>': 'SliceT', 'std::size_t': 'size_t'})
unit({
    'name': 'volr',
    'includes': ['kf.h', 'wr.h', 'volw.h'],
    'ctor_calls': {'FileWriterT': {'fn': 'FileWriter_ctor', 'throws': True}},
    'typemap': dict(VOLR_TM, **{'Stream::FileWriter': 'FileWriterT', 'FileWriter': 'FileWriterT'}),
    'enums': [('src/Archive/CompressionType.h', 'CompressionType'), (VH, 'VolPadding')],
    'structs': [STR_VIEW, TAG_T, VIEW('vec_str', 'str'), (VH, 'IndexEntry', {'cname': 'VolIndexEntry'}), (VH, 'SectionHeader', {'cname': 'VolSectionHeader'}),
                VIEW('vec_VolIndexEntry', 'VolIndexEntry'), (VH, 'VolFile', {'bases': [('src/Archive/ArchiveFile.h', 'ArchiveFile')]})],
    'globals': [{'file': VF, 'qual': 'Tag' + t_, 'ctype': 'Tag', 'cname': 'Tag' + t_} for t_ in ('VOL_', 'VOLH', 'VOLS', 'VOLI', 'VBLK')],
    'scoped': {'CompressionType': 'CompressionType', 'VolPadding': 'VolPadding', 'Stream': ''},
    'calls': {
        'VerifyIndexInBounds': T('VolFile_VerifyIndexInBounds'),
        'Seek': T('Fr_Seek'), 'Length': N('Fr_Length'), 'Position': N('Fr_Position'), 'SeekForward': T('Fr_SeekForward'),
        'Read': {1: [(r'self->m_IndexEntries', T('Fr_Read', args=['vec'])), (r'.*', T('Fr_Read', args=['obj']))], 2: T('Fr_Read')},
        'Slice': {2: T('Fr_Slice2'), 1: T('Fr_Slice1')},
        'GetSectionHeader': T('VolFile_GetSectionHeader'),
        'ReadTag': T('VolFile_ReadTag'), 'ReadStringTable': T('VolFile_ReadStringTable'), 'CountValidEntries': N('VolFile_CountValidEntries'),
        'resize': {1: T('vec_VolIndexEntry_resize')},
        'ExtractFileUncompressed': T('VolFile_ExtractFileUncompressed', args=[None, 'ref']), 'ExtractFileLzh': T('VolFile_ExtractFileLzh'),
        'Write': {1: [(r'slice', T('Wr_WriteSliceT', args=['ref']))]},
    },
    'functions': [
        _vr('GetName'), _vr('GetCompressionCode'), _vr('GetSize'), _vr('GetFileOffset'), _vr('GetFilenameOffset'),
        _vr('OpenStream'), _vr('GetSectionHeader'), _vr('ExtractFile', nparams=2, autos={'indexEntry': 'VolIndexEntry'}),
        _vr('ReadTag'), _vr('ReadVolHeader'), _vr('CountValidEntries'), _vr('ExtractFileUncompressed'),
    ],
})

# --------------------------------------------------------------------------- U-CLMR (ClmFile: reading side)
def _cr(name, **kw):
    d = {'file': CF, 'qual': 'ClmFile::' + name, 'cls': 'ClmFile', 'cname': 'ClmFile_' + name}
    d.update(kw); return d
unit({
    'name': 'clmr',
    'includes': ['kf.h', 'wr.h', 'volw.h'],
    'typemap': dict(CLM_TM, **{'Stream::FileReader': 'Fr', 'ClmFile': 'ClmFile', 'std::unique_ptr<Stream::BidirectionalReader>': 'SliceT', 'std::size_t': 'size_t', 'Stream::FileWriter': 'FileWriterT', 'FileWriter': 'FileWriterT'}),
    'structs': [STR_VIEW, TAG_T, ARR('arr_char_32', 'char', 32), ARR('arr_char_6', 'char', 6), ARR('arr_char_8', 'char', 8),
                (WFH, 'WaveFormatEx'), (WFH, 'RiffHeader'), (WFH, 'FormatChunk'), (WFH, 'ChunkHeader'), (WFH, 'WaveHeader'),
                (CH, 'ClmHeader'), (CH, 'IndexEntry', {'cname': 'ClmIndexEntry'}), VIEW('vec_ClmIndexEntry', 'ClmIndexEntry'),
                (CH, 'ClmFile', {'bases': [('src/Archive/ArchiveFile.h', 'ArchiveFile')]})],
    'globals': [{'file': CF, 'qual': 'standardFileVersion', 'ctype': 'arr_char_32', 'cname': 'standardFileVersion'},
                {'file': CF, 'qual': 'standardUnknown', 'ctype': 'arr_char_6', 'cname': 'standardUnknown'}],
    'scoped': {'ClmHeader': 'ClmHeader', 'IndexEntry': 'ClmIndexEntry', 'Stream': '', 'WaveHeader': ''},
    'ctor_calls': {'FileWriterT': {'fn': 'FileWriter_ctor', 'throws': True}},
    'calls': {
        'VerifyIndexInBounds': T('ClmFile_VerifyIndexInBounds'),
        'Read': {1: [(r'self->indexEntries', T('Fr_Read', args=['vec'])), (r'.*', T('Fr_Read', args=['obj']))]},
        'Slice': {2: T('Fr_Slice2')},
        'VerifyFileVersion': T('ClmHeader_VerifyFileVersion'), 'VerifyUnknown': T('ClmHeader_VerifyUnknown'),
        'CheckFileVersion': N('ClmHeader_CheckFileVersion'), 'CheckUnknown': N('ClmHeader_CheckUnknown'),
        'GetFilename': N('ClmIndexEntry_GetFilename'),
        'Create': N('WaveHeader_Create', recv='none', args=['ref']),
        'Write': {1: [(r'header', T('Wr_Write', args=['obj'])), (r'slice', T('Wr_WriteSliceT', args=['ref']))]},
        'vec_ClmIndexEntry_assign_n': T('vec_ClmIndexEntry_assign_n', recv='none'),
    },
    # R21: the one statement with no token rule -- assignment of a freshly constructed vector of n value-initialised records
    'text_subst': [(r'self->indexEntries\s*=\s*vec_ClmIndexEntry\s*\(([^;]*)\)\s*;', r'vec_ClmIndexEntry_assign_n(&self->indexEntries, \1); if (op2_exc) return;')],
    'functions': [
        {'file': CF, 'qual': 'ClmFile::ClmHeader::CheckFileVersion', 'cls': 'ClmHeader', 'cname': 'ClmHeader_CheckFileVersion'},
        {'file': CF, 'qual': 'ClmFile::ClmHeader::CheckUnknown', 'cls': 'ClmHeader', 'cname': 'ClmHeader_CheckUnknown'},
        {'file': CF, 'qual': 'ClmFile::ClmHeader::VerifyFileVersion', 'cls': 'ClmHeader', 'cname': 'ClmHeader_VerifyFileVersion'},
        {'file': CF, 'qual': 'ClmFile::ClmHeader::VerifyUnknown', 'cls': 'ClmHeader', 'cname': 'ClmHeader_VerifyUnknown'},
        _cr('ReadHeader'), _cr('GetName'), _cr('GetSize'), _cr('OpenStream', autos={'indexEntry': 'ClmIndexEntry'}), _cr('ExtractFile', autos={'indexEntry': 'ClmIndexEntry'}),
    ],
})

# --------------------------------------------------------------------------- U-MAPR / U-MAPW (map reader and writer over the stream contracts)
MR_ = 'src/Map/MapReader.cpp'; MW_ = 'src/Map/MapWriter.cpp'
def _mr(name, **kw):
    d = {'file': MR_, 'qual': 'Map::' + name, 'cls': 'Map', 'static': True, 'cname': 'Map_' + name, 'members': {}}
    d.update(kw); return d
def _mw(name, **kw):
    d = {'file': MW_, 'qual': 'Map::' + name, 'cls': 'Map', 'cname': 'Map_' + name}
    d.update(kw); return d
unit({
    'name': 'mapio',
    'includes': ['kr.h', 'wr.h'],
    'typemap': dict(MAP_TYPEMAP, **{'Stream::Reader': 'Rd', 'Stream::BidirectionalReader': 'Rd', 'Stream::Writer': 'Wr', 'std::array<char,10>': 'arr_char_10', 'std::size_t': 'size_t',
                                    'SavedGameUnits': 'SavedGameUnits', 'ObjectType1': 'ObjectType1', 'UnitRecord': 'UnitRecord', 'std::vector<ObjectType1>': 'vec_ObjectType1',
                                    'std::array<uint8_t,512>': 'arr_u8_512', 'std::array<uint8_t,DefaultSizeOfUnit>': 'arr_u8_120', 'std::array<UnitRecord,2047>': 'arr_UnitRecord_2047', 'std::array<uint32_t,2048>': 'arr_u32_2048'}),
    'enums': [('src/Map/CellType.h', 'CellType')],
    'structs': [ARR('arr_char_10', 'char', 10)] + MAP_STRUCTS + [ARR('arr_u8_512', 'uint8_t', 512), ARR('arr_u8_120', 'uint8_t', 120), ('src/Map/SavedGameUnits.h', 'ObjectType1'), ('src/Map/SavedGameUnits.h', 'UnitRecord'),
                VIEW('vec_ObjectType1', 'ObjectType1'), ARR('arr_UnitRecord_2047', 'UnitRecord', 2047), ARR('arr_u32_2048', 'uint32_t', 2048), ('src/Map/SavedGameUnits.h', 'SavedGameUnits')],
    'globals': [{'file': MR_, 'qual': 'tilesetHeader', 'ctype': 'arr_char_10', 'cname': 'tilesetHeader'}],
    'scoped': {'CellType': 'CellType', 'MapHeader': 'MapHeader'},
    'views': MAP_VIEWS + [(r'map\.tiles', 'vec'), (r'map\.tileMappings', 'vec'), (r'map\.terrainTypes', 'vec'), (r'tileGroup\.mappingIndices', 'vec'), (r'tileGroup\.name', 'str'), (r'\(\*tilesetSources\)', 'vec')],
    'default_ctors': {'Map': 'Map_ctor', 'MapHeader': 'MapHeader_ctor'},
    'calls': {
        'CheckMinVersionTag': T('Map_CheckMinVersionTag', recv='none'),
        'WidthInTiles': N('MapHeader_WidthInTiles'), 'TileCount': N('MapHeader_TileCount'),
        'resize': [(r'.*tiles', T('vec_Tile_resize')), (r'.*mappingIndices', T('vec_u32_resize')), (r'.*objects1', T('vec_ObjectType1_resize')), (r'.*objects2', T('vec_u32_resize'))],
        'CheckSizeOfUnit': T('SavedGameUnits_CheckSizeOfUnit'),
        'Read': {1: [(r'map\.tiles|tileGroup\.mappingIndices|savedGameUnits\.objects[12]', T('Rd_Read', args=['vec'])),
                     (r'savedGameUnits\.(unitCount|lastUsedUnitIndex|nextFreeUnitSlotIndex|firstFreeUnitSlotIndex|sizeOfUnit|objectCount1|objectCount2|nextUnitIndex|prevUnitIndex)', T('Rd_ReadU32T', args=['obj'])),      # K_R at byte indices 0..3, typed target
                     (r'savedGameUnits\.units', T('Rd_ReadUnits', args=['obj'])), (r'savedGameUnits\.freeUnits', T('Rd_ReadFreeUnits', args=['obj'])),      # typed framing projection of K_R (245 KB / 8 KB records)
                     (r'.*', T('Rd_Read', args=['obj']))],
                 ('uint32_t', 1): [(r'map\.tileMappings', T('Reader_ReadSized_u32_vec_TileMapping', args=['ref'])), (r'map\.terrainTypes', T('Reader_ReadSized_u32_vec_TerrainType', args=['ref'])),
                                   (r'tileGroup\.name', T('Reader_ReadSized_u32_str', args=['ref']))]},
        'ReadTilesetSources': T('Map_ReadTilesetSources', recv='none', args=['ref', 'ref', None]),
        'ReadTilesetHeader': T('Map_ReadTilesetHeader', recv='none', args=['ref']),
        'SeekForward': T('Rd_SeekForward'),
        'IsPowerOf2': N('IsPowerOf2', recv='none', free=True), 'Log2OfPowerOf2': N('Log2OfPowerOf2', recv='none', free=True),
        'GetWidthInTilesLog2': T('Map_GetWidthInTilesLog2'),
        'Write': {1: [(r'.*', T('Wr_Write', args=['objtmp']))]},
    },
    'functions': [
        _mr('ReadMap', ordinal=1, ret_cxx='Map', calls={'ReadMapBeginning': T('Map_ReadMapBeginning_U', recv='none', args=['ref']), 'ReadVersionTag': T('Map_ReadVersionTag_U', recv='none', args=['ref', None]),
                                                       'ReadTileGroups': T('Map_ReadTileGroups_U', recv='none', args=['ref', 'ref'])}),
        _mr('ReadSavedGame', ordinal=1, ret_cxx='Map', calls={'SkipSaveGameHeader': T('Map_SkipSaveGameHeader_U', recv='none', args=['ref']), 'ReadMapBeginning': T('Map_ReadMapBeginning_U', recv='none', args=['ref']),
                                                             'ReadVersionTag': T('Map_ReadVersionTag_U', recv='none', args=['ref', None]), 'ReadSavedGameUnits': T('Map_ReadSavedGameUnits_U', recv='none', args=['ref'])}),
        _mr('ReadTileGroups', calls={'Read': {1: [(r'.*', T('Rd_Read', args=['obj']))]}, 'push_back': T('vec_TileGroup_push_back'), 'ReadTileGroup': T('Map_ReadTileGroup_U', recv='none', args=['ref'])},
            views=[(r'\(\*map\)\.tileGroups', 'vec')]),
        _mr('SkipSaveGameHeader'), _mr('ReadMapBeginning'), _mr('ReadTilesetHeader'), _mr('ReadVersionTag'), _mr('ReadTileGroup'),
        {'file': 'src/Map/SavedGameUnits.cpp', 'qual': 'SavedGameUnits::CheckSizeOfUnit', 'cls': 'SavedGameUnits', 'cname': 'SavedGameUnits_CheckSizeOfUnit'},
        _mr('ReadSavedGameUnits', views=[(r'savedGameUnits\.objects[12]', 'vec')]),
        _mw('CreateHeader'), _mw('GetWidthInTilesLog2'), _mw('WriteContainerSize', static=True),
        _mw('WriteTileGroups', static=True, members={}, rangefor={'tileGroup': 'TileGroup'}, views=[(r'\(\*tileGroups\)', 'vec'), (r'\(\*tileGroup\)\.mappingIndices', 'vec'), (r'\(\*tileGroup\)\.name', 'str')],
            calls={'WriteContainerSize': T('Map_WriteContainerSize', recv='none', args=['ref', None]), 'empty': N('vec_TileGroup_empty'),
                   'Write': {1: [(r'\(\*tileGroup\)\.mappingIndices', T('Wr_Write', args=['vec'])), (r'.*', T('Wr_Write', args=['obj']))], ('uint32_t', 1): [(r'.*name', T('Writer_WriteSized_u32_str', args=['ref']))]}}),
        _mw('Write', ordinal=1, calls={'CreateHeader': T('Map_CreateHeader'),
                                      'Write': {1: [(r'\(\*map\)\.tiles', T('Wr_Write', args=['vec'])), (r'.*', T('Wr_Write', args=['obj']))], 2: T('Wr_Write'),
                                                ('uint32_t', 1): [(r'.*tileMappings', T('Writer_WriteSized_u32_vec_TileMapping', args=['ref'])), (r'.*terrainTypes', T('Writer_WriteSized_u32_vec_TerrainType', args=['ref']))]},
                                      'WriteTilesetSources': T('Map_WriteTilesetSources_U', recv='none', args=['ref', 'ref']), 'WriteTileGroups': T('Map_WriteTileGroups_U', recv='none', args=['ref', 'ref'])},
            views=[(r'\(\*map\)\.tiles', 'vec')]),
        _mw('WriteTilesetSources', static=True, members={}, rangefor={'tilesetSource': 'TilesetSource'}, views=[(r'\(\*tilesetSources\)', 'vec'), (r'\(\*tilesetSource\)\.tilesetFilename', 'str')],
            calls={'Write': {1: [(r'.*', T('Wr_Write', args=['obj']))], ('uint32_t', 1): [(r'.*tilesetFilename', T('Writer_WriteSized_u32_str', args=['ref']))]}, 'IsEmpty': N('TilesetSource_IsEmpty')}),
    ],
})
