#!/usr/bin/env python3
"""cxx2c.py -- mechanical extraction of C++17 function bodies from /repo/src into C.

The body token stream is copied verbatim except for the generic rewrite rules
R1..R19 of DESIGN.md section 4.  No rule mentions a constant, an operator or a
comparison of the code under verification.  Anything the rules cannot translate
is left in the text and makes goto-cc fail => the driver reports an extraction
break (exit 2), never a verdict.

Public entry: extract_unit(unit: dict, repo: str) -> (c_text, info)
"""
import re, hashlib, os

class ExtractionBreak(Exception):
    pass

# --------------------------------------------------------------------------- tokenizer
TOKEN_RE = re.compile(r'''
  (?P<ws>[ \t\r\n]+) | (?P<lc>//[^\n]*) | (?P<bc>/\*.*?\*/) |
  (?P<pp>\#[^\n]*) |
  (?P<str>"(?:\\.|[^"\\])*") | (?P<chr>'(?:\\.|[^'\\])*') |
  (?P<num>0[xX][0-9a-fA-F']+[uUlL]*|0[bB][01']+[uUlL]*|\d[\d']*(?:\.\d+)?[uUlLfF]*) |
  (?P<id>(?:@@)?[A-Za-z_]\w*) |
  (?P<op>->\*|<<=|>>=|\.\.\.|::|->|\+\+|--|<<|>>|<=|>=|==|!=|&&|\|\||\+=|-=|\*=|/=|%=|&=|\|=|\^=|[{}()\[\];,.<>+\-*/%&|^!~?:=])
''', re.X | re.S)

class Tok:
    __slots__ = ('k', 't')
    def __init__(self, k, t):
        self.k = k; self.t = t
    def __repr__(self):
        return '%s:%r' % (self.k, self.t)

def tokenize(text):
    out = []
    pos = 0
    n = len(text)
    while pos < n:
        m = TOKEN_RE.match(text, pos)
        if not m:
            raise ExtractionBreak('tokenizer: cannot read at %r' % text[pos:pos + 30])
        k = m.lastgroup
        out.append(Tok(k, m.group()))
        pos = m.end()
    return out

def T(k, t):
    return Tok(k, t)

def untok(toks):
    return ''.join(t.t for t in toks)

def sig(t):
    return t.k not in ('ws', 'lc', 'bc')

def sig_idx(toks):
    return [i for i, t in enumerate(toks) if sig(t)]

def next_sig(toks, i):
    i += 1
    while i < len(toks) and not sig(toks[i]):
        i += 1
    return i if i < len(toks) else None

def prev_sig(toks, i):
    i -= 1
    while i >= 0 and not sig(toks[i]):
        i -= 1
    return i if i >= 0 else None

OPEN = {'(': ')', '[': ']', '{': '}'}
CLOSE = {')': '(', ']': '[', '}': '{'}

def match_fwd(toks, i):
    """toks[i] is an opening bracket; return index of the matching closer."""
    o = toks[i].t; c = OPEN[o]; d = 0
    for j in range(i, len(toks)):
        t = toks[j]
        if t.k == 'op':
            if t.t == o: d += 1
            elif t.t == c:
                d -= 1
                if d == 0:
                    return j
    raise ExtractionBreak('unbalanced %s' % o)

def match_back(toks, i):
    c = toks[i].t; o = CLOSE[c]; d = 0
    for j in range(i, -1, -1):
        t = toks[j]
        if t.k == 'op':
            if t.t == c: d += 1
            elif t.t == o:
                d -= 1
                if d == 0:
                    return j
    raise ExtractionBreak('unbalanced %s' % c)

def match_angle(toks, i):
    """toks[i] is '<' of a template argument list; return index of matching '>'."""
    d = 0
    for j in range(i, len(toks)):
        t = toks[j]
        if t.k == 'op':
            if t.t == '<': d += 1
            elif t.t == '>':
                d -= 1
                if d == 0:
                    return j
            elif t.t == '>>':
                d -= 2
                if d <= 0:
                    return j
            elif t.t in (';', '{', '}'):
                break
    raise ExtractionBreak('unbalanced <')

def split_top(toks, sep=',', angle=False):
    """split a token list at separators that are at bracket depth 0 (angle=True: also inside <...>, for parameter lists)"""
    parts = []; cur = []; d = 0
    for t in toks:
        if t.k == 'op':
            if t.t in OPEN: d += 1
            elif t.t in CLOSE: d -= 1
            elif angle and t.t == '<': d += 1
            elif angle and t.t == '>': d -= 1
            elif angle and t.t == '>>': d -= 2
            elif t.t == sep and d == 0:
                parts.append(cur); cur = []
                continue
        cur.append(t)
    parts.append(cur)
    return parts

def strip_ws(toks):
    a = 0; b = len(toks)
    while a < b and not sig(toks[a]): a += 1
    while b > a and not sig(toks[b - 1]): b -= 1
    return toks[a:b]

def norm_type(s):
    s = re.sub(r'\s+', ' ', s.strip())
    s = re.sub(r'\s*([<>,*&])\s*', r'\1', s)
    return s

# --------------------------------------------------------------------------- type mapping
BASE_TYPEMAP = {
    'std::size_t': 'size_t', 'size_t': 'size_t', 'std::uint32_t': 'uint32_t',
    'uint8_t': 'uint8_t', 'uint16_t': 'uint16_t', 'uint32_t': 'uint32_t', 'uint64_t': 'uint64_t',
    'int8_t': 'int8_t', 'int16_t': 'int16_t', 'int32_t': 'int32_t', 'int64_t': 'int64_t',
    'int': 'int', 'unsigned int': 'unsigned int', 'unsigned': 'unsigned', 'char': 'char', 'bool': 'bool',
    'unsigned char': 'unsigned char', 'unsigned short': 'unsigned short', 'short': 'short',
    'void': 'void', 'long': 'long', 'unsigned long': 'unsigned long',
    'Tag': 'Tag',
}
SCALARS = {'size_t', 'uint8_t', 'uint16_t', 'uint32_t', 'uint64_t', 'int8_t', 'int16_t', 'int32_t',
           'int64_t', 'int', 'unsigned', 'char', 'bool', 'short', 'long'}

def map_type(cxx, typemap):
    """map a C++ type spelling (no declarator name) to a C type spelling.
    returns (ctype, is_ref)"""
    s = norm_type(cxx)
    is_ref = False
    if s.endswith('&&'):
        s = s[:-2]; is_ref = True
    elif s.endswith('&'):
        s = s[:-1]; is_ref = True
    # strip cv-qualifiers that do not matter in C
    words = s
    ptr = ''
    while words.endswith('*') or words.endswith('*const') or words.endswith(' const'):
        if words.endswith('*const'):
            words = words[:-5]
        elif words.endswith(' const'):
            words = words[:-6]
        else:
            words = words[:-1]; ptr += '*'
    const = ''
    if words.startswith('const '):
        words = words[6:]
        if ptr:
            const = 'const '
    words = words.strip()
    if words.startswith('typename '):
        words = words[9:]
    m_mu = re.fullmatch(r'std::make_(un)?signed_t<(.+)>', words.replace(' ', ''))
    if m_mu:
        # R23: std::make_unsigned_t<T> / std::make_signed_t<T> of a fixed-width integer type
        inner, _ = map_type(m_mu.group(2), typemap)
        tbl_u = {'int8_t': 'uint8_t', 'int16_t': 'uint16_t', 'int32_t': 'uint32_t', 'int64_t': 'uint64_t', 'int': 'unsigned int', 'long': 'unsigned long', 'char': 'unsigned char'}
        tbl_s = {v: k for k, v in tbl_u.items()}
        if m_mu.group(1): base = tbl_u.get(inner, inner if inner in tbl_s or inner == 'size_t' else None)
        else: base = tbl_s.get(inner, inner if inner in tbl_u else None)
        if base is None: raise ExtractionBreak('R23: make_(un)signed_t of %r' % inner)
        return const + base + ptr, is_ref
    if words in typemap:
        base = typemap[words]
    elif words in BASE_TYPEMAP:
        base = BASE_TYPEMAP[words]
    elif words in typemap.values():
        base = words          # already a C spelling produced by an earlier pass
    else:
        raise ExtractionBreak('no C binding for C++ type %r' % cxx)
    return const + base + ptr, is_ref

# --------------------------------------------------------------------------- locating definitions
def find_class_body(toks, name):
    """return (open_brace_idx, close_brace_idx) of `class|struct name ... {` definition"""
    n = len(toks)
    for i, t in enumerate(toks):
        if t.k == 'id' and t.t in ('class', 'struct'):
            j = next_sig(toks, i)
            if j is not None and toks[j].k == 'id' and toks[j].t == name:
                k = next_sig(toks, j)
                # skip base clause / final
                while k is not None and not (toks[k].k == 'op' and toks[k].t in ('{', ';')):
                    k = next_sig(toks, k)
                if k is not None and toks[k].t == '{':
                    return k, match_fwd(toks, k)
    raise ExtractionBreak('class/struct %s not found' % name)

def find_enum(toks, name):
    for i, t in enumerate(toks):
        if t.k == 'id' and t.t == 'enum':
            j = next_sig(toks, i)
            if toks[j].k == 'id' and toks[j].t in ('class', 'struct'):
                j = next_sig(toks, j)
            if toks[j].k == 'id' and toks[j].t == name:
                k = next_sig(toks, j)
                base = None
                if toks[k].t == ':':
                    b = []
                    k = next_sig(toks, k)
                    while toks[k].t != '{':
                        b.append(toks[k].t); k = next_sig(toks, k)
                    base = ' '.join(b)
                if toks[k].t == '{':
                    return k, match_fwd(toks, k), base
    raise ExtractionBreak('enum %s not found' % name)

def extract_enum(text, name, typemap):
    toks = tokenize(text)
    a, b, base = find_enum(toks, name)
    cbase = 'int' if base is None else map_type(base, typemap)[0]
    items = split_top([t for t in toks[a + 1:b] if t.k != 'lc' and t.k != 'bc'])
    out = ['typedef %s %s;' % (cbase, name), 'enum {']
    prev = None
    for it in items:
        it = strip_ws(it)
        if not it: continue
        nm = it[0].t
        if len(it) > 1 and it[1 if it[1].t == '=' else next(i for i, x in enumerate(it) if x.t == '=')].t == '=':
            eqi = next(i for i, x in enumerate(it) if x.t == '=')
            val = untok(it[eqi + 1:]).strip()
            val = re.sub(r"(?<=[0-9a-fA-Fb])'(?=[0-9a-fA-F])", '', val)
            val = re.sub(r'\b([A-Za-z_]\w*)\b', lambda m: m.group(1) if re.match(r'0[xXbB]', m.group(1)) else name + '_' + m.group(1), val) if re.search(r'[A-Za-z_]', re.sub(r'0[xXbB][0-9a-fA-F]+', '', val)) else val
        else:
            val = '0' if prev is None else '(%s_%s + 1)' % (name, prev)
        out.append('  %s_%s = %s,' % (name, nm, val))
        prev = nm
    out.append('};')
    return '\n'.join(out) + '\n'

def parse_fields(toks, a, b, typemap, cls):
    """parse data members between class-body braces a..b.  returns list of (ctype, name, suffix, cxxtype) and static_asserts"""
    fields = []; asserts = []; statics = []
    i = next_sig(toks, a)
    while i is not None and i < b:
        t = toks[i]
        # access labels
        if t.k == 'id' and t.t in ('public', 'private', 'protected'):
            i = next_sig(toks, next_sig(toks, i)); continue
        if t.k == 'pp':
            i = next_sig(toks, i); continue
        # collect one declaration
        j = i; d = 0; has_paren = False; body = False
        while j < b:
            x = toks[j]
            if x.k == 'op':
                if x.t == '(' and d == 0:
                    has_paren = True
                if x.t in OPEN:
                    if x.t == '{' and d == 0 and has_paren:
                        j = match_fwd(toks, j); body = True
                        break
                    if x.t == '{' and d == 0 and toks[i].t in ('struct', 'class', 'enum', 'union'):
                        j = match_fwd(toks, j)
                        # nested type: ends with ;
                        j = next_sig(toks, j)
                        body = True
                        break
                    d += 1
                elif x.t in CLOSE:
                    d -= 1
                elif x.t == ';' and d == 0:
                    break
            j += 1
        decl = [x for x in toks[i:j] if sig(x)]
        nxt = next_sig(toks, j)
        if body:
            # function definition in class, or nested type; a trailing ';' after a function body is tolerated
            if nxt is not None and nxt < b and toks[nxt].t == ';' and not (decl and decl[0].t in ('struct', 'class', 'enum', 'union')):
                nxt = next_sig(toks, nxt)
            i = nxt; continue
        i = nxt
        if not decl: continue
        w0 = decl[0].t
        if w0 == 'static_assert':
            asserts.append(untok(toks[toks.index(decl[0]):j]))
            continue
        def _eq_before_paren(dd):
            for x in dd:
                if x.t == '=': return True
                if x.t == '(': return False
            return False
        if w0 in ('static', 'constexpr') and _eq_before_paren(decl):
            # static constant with in-class initialiser:  static const T name = value;
            eq = next(k2 for k2, x in enumerate(decl) if x.t == '=')
            tys = [x.t for x in decl[:eq - 1] if x.t not in ('static', 'constexpr', 'const', 'inline')]
            val = ''.join(x.t for x in decl[eq + 1:])
            if tys == ['auto'] and tag_init(val):
                statics.append(('Tag', decl[eq - 1].t, tag_init(val)))
                continue
            val = re.sub(r'\b([A-Za-z_]\w*)\b', lambda m_: (cls + '_' + m_.group(1)) if any(m_.group(1) == st[1] for st in statics) else m_.group(1), val)
            try:
                cty, _ = map_type(re.sub(r'\s*::\s*', '::', ' '.join(tys)), typemap)
                statics.append((cty, decl[eq - 1].t, val))
            except ExtractionBreak:
                pass
            continue
        if w0 in ('using', 'typedef', 'friend', 'template', 'virtual', 'static', 'constexpr', 'explicit', 'enum') or has_paren:
            continue
        if w0 == '~': continue
        # data member:  type... name [ '[' N ']' ]* [ ':' bits ] [ '=' init ]
        # find name: last identifier before first '[' ':' '=' at depth 0 (not inside <>)
        d = 0; end = len(decl)
        for k2, x in enumerate(decl):
            if x.k == 'op':
                if x.t == '<': d += 1
                elif x.t == '>': d -= 1
                elif d == 0 and x.t in ('[', ':', '=', '{'):
                    end = k2; break
        name = decl[end - 1].t
        cxxtype = ' '.join(x.t for x in decl[:end - 1])
        cxxtype = re.sub(r'\s*::\s*', '::', cxxtype)
        cxxtype = re.sub(r'\s*<\s*', '<', cxxtype); cxxtype = re.sub(r'\s*>\s*', '>', cxxtype); cxxtype = re.sub(r'\s*,\s*', ',', cxxtype)
        suffix = ''.join(x.t for x in decl[end:])
        if suffix.startswith('=') or suffix.startswith('{'):
            suffix = ''
        ctype, is_ref = map_type(cxxtype, typemap)
        fields.append((ctype, name, suffix, cxxtype))
    parse_fields.last_statics = statics
    return fields, asserts

def extract_struct(text, name, typemap, packed, cname=None, keep_asserts=True):
    toks = tokenize(text)
    a, b = find_class_body(toks, name)
    fields, asserts = parse_fields(toks, a, b, typemap, name)
    cname = cname or name
    out = []
    # R13: packing is read from the header (#pragma pack(push/pop) surrounding the definition), not from the unit file
    npush = sum(1 for t in toks[:a] if t.k == 'pp' and re.match(r'#\s*pragma\s+pack\s*\(\s*push', t.t))
    npop = sum(1 for t in toks[:a] if t.k == 'pp' and re.match(r'#\s*pragma\s+pack\s*\(\s*pop', t.t))
    packed = npush > npop
    if packed: out.append('#pragma pack(push, 1)')
    out.append('typedef struct %s {' % cname)
    for ctype, nm, suffix, _ in fields:
        out.append('  %s %s%s;' % (ctype, nm, suffix))
    out.append('} %s;' % cname)
    if packed: out.append('#pragma pack(pop)')
    # size assertions written in the header (inside or after the struct) are kept and checked by goto-cc
    for i, t in enumerate(toks):
        if t.k == 'id' and t.t == 'static_assert':
            p = next_sig(toks, i); e = match_fwd(toks, p)
            txt = untok(toks[p:e + 1])
            if re.search(r'sizeof\s*\(\s*(\w+::)*%s\s*\)' % re.escape(name), txt) and txt.count('sizeof') == 1:
                txt = re.sub(r'sizeof\s*\(\s*(\w+::)*%s\s*\)' % re.escape(name), 'sizeof(%s)' % cname, txt)
                out.append('_Static_assert' + txt + ';')
    for cty, nm, val in parse_fields.last_statics:
        if cty.replace('const ', '') in SCALARS or cty in ('unsigned int', 'unsigned short', 'unsigned char'):
            # scalar class constants become macros: a C file-scope constant may not be initialised from another object
            out.append('#define %s_%s ((%s)(%s))' % (cname, nm, cty, val))
        else:
            out.append('static const %s %s_%s = %s;' % (cty, cname, nm, val))
    extract_struct.last_statics = [nm for _, nm, _ in parse_fields.last_statics]
    return '\n'.join(out) + '\n', fields

# --------------------------------------------------------------------------- function definitions
QUALS = {'const', 'noexcept', 'override', 'final'}

class FnDef:
    pass

def find_function(toks, qual, inclass=None, ordinal=0, nparams=None):
    """locate a function definition.
       qual: 'Class::Name' or 'Name' (free function); inclass: class name if defined inside the class body.
       returns FnDef with token ranges."""
    parts = qual.split('::')
    lo, hi = 0, len(toks)
    if inclass:
        lo, hi = find_class_body(toks, inclass)
        parts = [parts[-1]]
    sidx = [i for i in range(lo, hi) if sig(toks[i])]
    found = []
    L = len(parts) * 2 - 1
    for p in range(len(sidx) - L):
        ok = True
        for q in range(L):
            t = toks[sidx[p + q]]
            if q % 2 == 0:
                if not (t.k == 'id' and t.t == parts[q // 2]): ok = False; break
            else:
                if t.t != '::': ok = False; break
        if not ok: continue
        # must not be preceded by :: or . or -> (otherwise it is a use); and in-class: depth must be 1
        if p > 0 and toks[sidx[p - 1]].t in ('::', '.', '->', '~'):
            if not (len(parts) == 1 and toks[sidx[p - 1]].t == '::' and False):
                continue
        k = sidx[p + L] if p + L < len(sidx) else None
        if k is None or toks[k].t != '(': continue
        if inclass:
            # depth check: count braces between lo and name
            d = 0
            for z in range(lo, sidx[p]):
                if toks[z].k == 'op':
                    if toks[z].t == '{': d += 1
                    elif toks[z].t == '}': d -= 1
            if d != 1: continue
        close = match_fwd(toks, k)
        j = next_sig(toks, close)
        while j is not None and toks[j].k == 'id' and toks[j].t in QUALS:
            j = next_sig(toks, j)
        init = None
        if j is not None and toks[j].t == ':' :
            # ctor initialiser list: runs until the '{' that starts the body: items are name(expr) or name{expr}
            init_start = j
            j2 = next_sig(toks, j)
            while True:
                # name
                while toks[j2].k == 'id' or toks[j2].t == '::':
                    j2 = next_sig(toks, j2)
                if toks[j2].t in ('(', '{'):
                    j2 = match_fwd(toks, j2)
                    j2 = next_sig(toks, j2)
                if toks[j2].t == ',':
                    j2 = next_sig(toks, j2); continue
                break
            init = (init_start, j2)
            j = j2
        if j is None or toks[j].t != '{':
            continue       # a declaration or a call
        # reject calls: previous significant token before the name must end a statement or be a type token
        f = FnDef()
        f.name_start = sidx[p]; f.lparen = k; f.rparen = close; f.body_open = j; f.body_close = match_fwd(toks, j)
        f.init = init
        # return type: tokens back to previous ; } { or pp or ':' of access label or '>' of template<>
        r = sidx[p] - 1
        start = r + 1
        while r >= lo:
            t = toks[r]
            if t.k == 'pp': break
            if t.k == 'op' and t.t in (';', '}', '{'): break
            if t.k == 'op' and t.t == ':' and prev_sig(toks, r) is not None and toks[prev_sig(toks, r)].t in ('public', 'private', 'protected'): break
            if sig(t): start = r
            r -= 1
        f.ret_toks = [x for x in toks[start:sidx[p]] if sig(x)]
        params = [strip_ws(x) for x in split_top(toks[k + 1:close], angle=True)]
        params = [x for x in params if x]
        f.params = params
        found.append(f)
    if nparams is not None:
        found = [f for f in found if len(f.params) == nparams]
    if len(found) <= ordinal:
        raise ExtractionBreak('definition of %s (ordinal %d, nparams %s) not found' % (qual, ordinal, nparams))
    return found[ordinal]

def parse_param(ptoks, typemap, template_binding=None):
    """returns dict(name, ctype, is_ref, generic)"""
    pt = [x for x in ptoks if sig(x)]
    # strip default argument
    d = 0
    for i, x in enumerate(pt):
        if x.k == 'op':
            if x.t in ('<', '(', '[', '{'): d += 1
            elif x.t in ('>', ')', ']', '}'): d -= 1
            elif x.t == '=' and d == 0:
                pt = pt[:i]; break
    arr = ''
    # array-reference parameter forms are not supported
    name = pt[-1].t
    if pt[-1].k != 'id':
        raise ExtractionBreak('unsupported parameter %r' % untok(ptoks))
    tstr = ' '.join(x.t for x in pt[:-1])
    tstr = re.sub(r'\s*::\s*', '::', tstr); tstr = re.sub(r'\s*<\s*', '<', tstr); tstr = re.sub(r'\s*>\s*', '>', tstr); tstr = re.sub(r'\s*,\s*', ',', tstr)
    tstr = re.sub(r'\s*\*\s*', '*', tstr); tstr = re.sub(r'\s*&\s*', '&', tstr)
    tm = dict(typemap)
    if template_binding: tm.update(template_binding)
    ctype, is_ref = map_type(tstr, tm)
    return {'name': name, 'ctype': ctype, 'is_ref': is_ref, 'cxx': tstr}

# --------------------------------------------------------------------------- body rewriting
EXC_ALLOW = {'runtime_error', 'invalid_argument', 'out_of_range', 'logic_error', 'length_error', 'range_error', 'overflow_error'}

STD_MAP = {
    'size_t': 'size_t', 'memcpy': 'memcpy', 'memset': 'memset', 'memcmp': 'memcmp', 'strncpy': 'strncpy', 'abs': 'abs',
    'uint32_t': 'uint32_t', 'uint64_t': 'uint64_t', 'uint16_t': 'uint16_t', 'uint8_t': 'uint8_t',
    'int32_t': 'int32_t', 'swap': 'OP2_SWAP', 'min': 'OP2_MIN', 'move': 'OP2_IDENTITY',      # std::move(x) as a cast: views are moved by value (the 3-argument algorithm does not fit the macro: build break)
}
CAST_KW = {'static_cast', 'reinterpret_cast', 'const_cast'}
LOOP_KW = {'for', 'while', 'do'}

class Body:
    """rewriting context for one function body"""
    def __init__(self, toks, ctx):
        self.toks = toks
        self.ctx = ctx          # dict: typemap, members(dict name->ctype), params, cls, unit config, fn config
        self.fired = {}

    def fire(self, rule, n=1):
        self.fired[rule] = self.fired.get(rule, 0) + n

    # ---- R24: local alias declaration  `using A = T;`  ->  removed, A bound to the C spelling of T for the rest of this function
    def r_using(self):
        toks = self.toks
        i = 0
        while i < len(toks):
            t = toks[i]
            if t.k == 'id' and t.t == 'using':
                a = next_sig(toks, i); e = next_sig(toks, a) if a is not None else None
                if a is not None and e is not None and toks[a].k == 'id' and toks[e].t == '=':
                    j = e + 1
                    while not (toks[j].k == 'op' and toks[j].t == ';'): j += 1
                    cty, _ = map_type(untok([x for x in toks[e + 1:j] if sig(x)]), self.ctx['typemap'])
                    self.ctx['typemap'] = dict(self.ctx['typemap']); self.ctx['typemap'][toks[a].t] = cty
                    del toks[i:j + 1]
                    self.fire('R24using')
                    continue
            i += 1
        self.toks = toks

    # ---- R7 rethrow-only try/catch
    def r_trycatch(self):
        toks = self.toks
        i = 0
        while i < len(toks):
            t = toks[i]
            if t.k == 'id' and t.t == 'try':
                ob = next_sig(toks, i)
                if toks[ob].t != '{': raise ExtractionBreak('try without block')
                cb = match_fwd(toks, ob)
                c = next_sig(toks, cb)
                if not (toks[c].k == 'id' and toks[c].t == 'catch'): raise ExtractionBreak('try without catch')
                cp = next_sig(toks, c); cpe = match_fwd(toks, cp)
                hb = next_sig(toks, cpe); he = match_fwd(toks, hb)
                handler = [x for x in toks[hb + 1:he] if sig(x)]
                nsemi = sum(1 for x in handler if x.t == ';')
                if not handler or handler[0].t != 'throw' or nsemi != 1 or handler[-1].t != ';':
                    raise ExtractionBreak('R7: catch handler is not a single rethrow')
                n2 = next_sig(toks, he)
                if n2 is not None and toks[n2].k == 'id' and toks[n2].t == 'catch':
                    raise ExtractionBreak('R7: multiple handlers')
                # keep the try block, drop 'try' and the handler
                new = toks[:i] + toks[ob:cb + 1] + toks[he + 1:]
                self.toks = toks = new
                self.fire('R7')
                continue
            i += 1

    # ---- R5 throw
    def r_throw(self, throw_text):
        toks = self.toks
        i = 0
        out = []
        while i < len(toks):
            t = toks[i]
            if t.k == 'id' and t.t == 'throw':
                j = i; d = 0
                while True:
                    j += 1
                    x = toks[j]
                    if x.k == 'op':
                        if x.t in OPEN: d += 1
                        elif x.t in CLOSE: d -= 1
                        elif x.t == ';' and d == 0: break
                expr = [x for x in toks[i + 1:j] if sig(x)]
                names = [x.t for x in expr[:4]]
                if not (len(names) >= 3 and names[0] == 'std' and names[1] == '::' and names[2] in EXC_ALLOW):
                    raise ExtractionBreak('R5: throw of a type outside the allow-list: %s' % ' '.join(names))
                out.append(T('id', throw_text))
                i = j + 1
                self.fire('R5')
                continue
            if t.k == 'id' and t.t in self.ctx.get('throwing_calls', ()):
                n = next_sig(toks, i)
                p = prev_sig(toks, i)
                if n is not None and toks[n].t == '(' and (p is None or toks[p].t in (';', '{', '}', ')')):
                    e = match_fwd(toks, n)
                    s = next_sig(toks, e)
                    if toks[s].t == ';':
                        out.append(T('id', throw_text))
                        i = s + 1
                        self.fire('R5c')
                        continue
            out.append(t)
            i += 1
        self.toks = out

    # ---- R4 casts and std:: names
    def r_casts(self):
        toks = self.toks
        changed = True
        while changed:
            changed = False
            for i, t in enumerate(toks):
                if t.k == 'id' and t.t in CAST_KW:
                    a = next_sig(toks, i)
                    if toks[a].t != '<': raise ExtractionBreak('cast without <')
                    b = match_angle(toks, a)
                    ty = untok(toks[a + 1:b])
                    cty, _ = map_type(ty, self.ctx['typemap'])
                    p = next_sig(toks, b)
                    if toks[p].t != '(': raise ExtractionBreak('cast without (')
                    e = match_fwd(toks, p)
                    new = toks[:i] + [T('op', '('), T('op', '('), T('id', cty), T('op', ')'), T('op', '(')] + toks[p + 1:e] + [T('op', ')'), T('op', ')')] + toks[e + 1:]
                    self.toks = toks = new
                    self.fire('R4cast')
                    changed = True
                    break

    def r_std(self):
        toks = self.toks
        out = []
        i = 0
        tm = self.ctx['typemap']
        while i < len(toks):
            t = toks[i]
            if t.k == 'id' and t.t == 'std':
                a = next_sig(toks, i)
                if a is not None and toks[a].t == '::':
                    b = next_sig(toks, a)
                    nm = toks[b].t
                    if nm == 'numeric_limits':
                        la = next_sig(toks, b); ra = match_angle(toks, la)
                        inner = [x for x in toks[la + 1:ra] if sig(x)]
                        c1 = next_sig(toks, ra); c2 = next_sig(toks, c1); c3 = next_sig(toks, c2); c4 = next_sig(toks, c3)
                        if not (toks[c1].t == '::' and toks[c2].t in ('max', 'min') and toks[c3].t == '(' and toks[c4].t == ')'):
                            raise ExtractionBreak('numeric_limits form')
                        if toks[c2].t == 'min':
                            if inner[0].t == 'decltype': raise ExtractionBreak('numeric_limits<decltype>::min unsupported')
                            cty, _ = map_type(untok(toks[la + 1:ra]), tm)
                            out.append(T('id', 'OP2_MIN_' + cty.replace(' ', '_')))
                            i = c4 + 1
                            self.fire('R4lim')
                            continue
                        if inner[0].t == 'decltype':
                            out.append(T('id', 'OP2_UMAX_OF_EXPR'))
                            seen = False
                            for x in toks[la + 1:ra]:
                                if not seen:
                                    if x.k == 'id' and x.t == 'decltype': seen = True
                                    continue
                                out.append(x)
                        else:
                            cty, _ = map_type(untok(toks[la + 1:ra]), tm)
                            out.append(T('id', 'OP2_MAX_' + cty.replace(' ', '_')))
                        i = c4 + 1
                        self.fire('R4lim')
                        continue
                    if nm == 'find':
                        # R14: std::find(X.begin(), X.end(), v) != X.end()   (X a fixed std::array)
                        lp = next_sig(toks, b); rp = match_fwd(toks, lp)
                        args = [untok(strip_ws(a_)) for a_ in split_top(toks[lp + 1:rp])]
                        ne = next_sig(toks, rp)
                        m0 = re.fullmatch(r'(.+?)\s*\.\s*begin\s*\(\s*\)', args[0]) if len(args) == 3 else None
                        m1 = re.fullmatch(r'(.+?)\s*\.\s*end\s*\(\s*\)', args[1]) if len(args) == 3 else None
                        if not (m0 and m1 and m0.group(1) == m1.group(1) and ne is not None and toks[ne].t in ('!=', '==')):
                            raise ExtractionBreak('R14: unsupported std::find form')
                        # the comparison operand  X.end()
                        e1 = next_sig(toks, ne); j = e1; txt = ''
                        while True:
                            txt += toks[j].t
                            if re.fullmatch(r'(.+?)\.end\(\)', txt.replace(' ', '')): break
                            j = next_sig(toks, j)
                            if j is None or len(txt) > 200: raise ExtractionBreak('R14: std::find not compared with end()')
                        if txt.replace(' ', '')[:-6] != m0.group(1).replace(' ', ''):
                            raise ExtractionBreak('R14: std::find compared with a different container')
                        neg = '' if toks[ne].t == '!=' else '!'
                        out.extend(tokenize('%sOP2_ARR_CONTAINS(%s, %s)' % (neg, m0.group(1), args[2])))
                        i = j + 1
                        self.fire('R14find')
                        continue
                    if nm == 'sort':
                        # R22: std::sort(X.begin(), X.end(), cmp)  over a whole container  ->  op2_sort_by_<cmp>(&X)   (an abstract callee: the unit's contract file says what it assumes)
                        lp = next_sig(toks, b); rp = match_fwd(toks, lp)
                        args = [untok(strip_ws(a_)) for a_ in split_top(toks[lp + 1:rp])]
                        m0 = re.fullmatch(r'(.+?)\s*\.\s*begin\s*\(\s*\)', args[0]) if len(args) == 3 else None
                        m1 = re.fullmatch(r'(.+?)\s*\.\s*end\s*\(\s*\)', args[1]) if len(args) == 3 else None
                        if not (m0 and m1 and m0.group(1) == m1.group(1) and re.fullmatch(r'\w+', args[2])):
                            raise ExtractionBreak('R22: unsupported std::sort form')
                        out.extend(tokenize('op2_sort_by_%s(&(%s))' % (args[2], m0.group(1))))
                        i = rp + 1
                        self.fire('R22sort')
                        continue
                    if nm in STD_MAP:
                        out.append(T('id', STD_MAP[nm]))
                        i = b + 1
                        self.fire('R4std')
                        continue
                    # std::vector<...> / std::string / std::array<...> as a type: map whole type
                    if nm == 'make_unique':
                        # std::make_unique<T>(x): the heap indirection is dropped, the value itself stands for the owned object
                        la = next_sig(toks, b); ra = match_angle(toks, la)
                        out.append(T('id', 'OP2_IDENTITY'))
                        i = ra + 1
                        self.fire('R19mu')
                        continue
                    if nm in ('ios_base', 'ios'):
                        # std::ios_base::out / ::openmode ...  ->  OP2_IOS_out / OP2_IOS_openmode (values of the platform's library: assumed)
                        c1 = next_sig(toks, b); c2 = next_sig(toks, c1)
                        if toks[c1].t != '::' or toks[c2].k != 'id': raise ExtractionBreak('std::ios_base form')
                        out.append(T('id', 'OP2_IOS_' + toks[c2].t))
                        i = c2 + 1
                        self.fire('R4ios')
                        continue
                    if nm in ('vector', 'array', 'string', 'unique_ptr'):
                        e = b
                        n2 = next_sig(toks, b)
                        if n2 is not None and toks[n2].t == '<':
                            e = match_angle(toks, n2)
                        ty = norm_type(untok([x for x in toks[i:e + 1] if sig(x)]))
                        cty, _ = map_type(ty, tm)
                        out.append(T('id', cty))
                        i = e + 1
                        self.fire('R8type')
                        continue
                    raise ExtractionBreak('std::%s is not supported' % nm)
            if t.k == 'op' and t.t == '::':
                pp_ = prev_sig(toks, i)
                if pp_ is None or toks[pp_].k != 'id' or toks[pp_].t in ('return',):
                    i += 1      # global scope resolution  ::f  ->  f
                    continue
            if t.k == 'id' and t.t == 'typename':
                j = i; txt = ''
                while True:
                    j = next_sig(toks, j)
                    if j is None or (toks[j].k == 'op' and toks[j].t in (')', ',', '>', ';')): break
                    txt += toks[j].t
                key = 'typename ' + txt
                if key in tm:
                    out.append(T('id', tm[key])); i = j; self.fire('R11dep'); continue
                raise ExtractionBreak('no binding for dependent type %r' % key)
            if t.k == 'id' and t.t == 'sizeof':
                a1 = next_sig(toks, i)
                if a1 is not None and toks[a1].t == '(':
                    a2 = next_sig(toks, a1); a3 = next_sig(toks, a2) if a2 is not None else None
                    if a2 is not None and a3 is not None and toks[a2].k == 'id' and toks[a3].t == ')' and toks[a2].t in tm and tm[toks[a2].t] != toks[a2].t:
                        out.extend([t, toks[a1], T('id', tm[toks[a2].t]), toks[a3]])      # sizeof(NestedType) -> its C name
                        i = a3 + 1
                        continue
            if t.k == 'id' and t.t == 'nullptr':
                out.append(T('id', 'NULL')); i += 1; continue
            if t.k == 'id' and t.t == 'constexpr':
                pq = prev_sig(toks, i)
                if pq is not None and toks[pq].k == 'id' and toks[pq].t == 'if':
                    i += 1; continue          # if constexpr (c)  ->  if (c): the condition is a constant either way
                out.append(T('id', 'const')); i += 1; continue
            if t.k == 'pp':
                if t.t.startswith('#pragma warning'):
                    i += 1; continue
            if t.k == 'num' and "'" in t.t:
                out.append(T('num', t.t.replace("'", ''))); i += 1; continue
            out.append(t)
            i += 1
        self.toks = out

    # ---- enum scope  E::X -> E_X ; static Class::CONST -> Class_CONST (from ctx['scoped'])
    def r_scoped(self):
        toks = self.toks
        scoped = self.ctx.get('scoped', {})
        out = []
        i = 0
        while i < len(toks):
            t = toks[i]
            if t.k == 'id' and t.t in scoped:
                a = next_sig(toks, i)
                if a is not None and toks[a].t == '::':
                    b = next_sig(toks, a)
                    if toks[b].k == 'id':
                        # Class::dataMember (only meaningful inside sizeof)  ->  ((Class*)0)->member
                        cn_ = self.ctx['typemap'].get(t.t, t.t)
                        if toks[b].t in self.ctx.get('all_members', {}).get(cn_, self.ctx.get('all_members', {}).get(t.t, {})):
                            out.append(T('id', '((%s*)0)->%s' % (cn_, toks[b].t)))
                            i = b + 1
                            self.fire('R12m')
                            continue
                        # allow nesting  A::B::C
                        name = (scoped[t.t] + '_' + toks[b].t) if scoped[t.t] else toks[b].t
                        c = next_sig(toks, b)
                        while c is not None and toks[c].t == '::':
                            d = next_sig(toks, c)
                            name += '_' + toks[d].t
                            b = d
                            c = next_sig(toks, b)
                        out.append(T('id', name))
                        i = b + 1
                        self.fire('R12')
                        continue
            out.append(t)
            i += 1
        self.toks = out

    # ---- R16: braced temporaries of a known struct type:  Type{ ... }  ->  (Type){ ... }
    def r_aggregate(self):
        toks = self.toks
        names = set(self.ctx.get('struct_names', ()))
        out = []
        for i, t in enumerate(toks):
            if t.k == 'id' and t.t in names:
                n = next_sig(toks, i); p = prev_sig(toks, i)
                if n is not None and toks[n].t == '{' and p is not None and (toks[p].t in ('return', '=', '(', ',') ):
                    out.extend([T('op', '('), t, T('op', ')')]); self.fire('R16'); continue
            out.append(t)
        self.toks = out

    # ---- functional casts  T(expr) / T{expr} for scalar T
    def r_funcast(self):
        toks = self.toks
        changed = True
        while changed:
            changed = False
            for i, t in enumerate(toks):
                if t.k == 'id' and t.t in SCALARS:
                    n = next_sig(toks, i)
                    p = prev_sig(toks, i)
                    if n is not None and toks[n].t in ('(', '{') and (p is None or toks[p].k != 'id' or toks[p].t in ('return',)) and (p is None or toks[p].t not in (')',) or True):
                        # a declaration "T name(" never has '(' directly after the type, so this is a cast
                        if p is not None and toks[p].t in ('unsigned', 'signed', 'const'):
                            continue
                        if p is not None and toks[p].t == '(' :
                            # could be C cast "(T)(" already produced by r_casts
                            n2 = prev_sig(toks, p)
                            # "( ( T ) (" pattern => skip
                            q = next_sig(toks, i)
                            pass
                        if p is not None and toks[p].t == '(' and toks[n].t == '(' :
                            # distinguish "(T)(" from "f(T(x))": in "(T)(" the token after T is ')'
                            pass
                        e = match_fwd(toks, n)
                        new = toks[:i] + [T('op', '('), T('op', '('), T('id', t.t), T('op', ')'), T('op', '(')] + toks[n + 1:e] + [T('op', ')'), T('op', ')')] + toks[e + 1:]
                        self.toks = toks = new
                        self.fire('R4fcast')
                        changed = True
                        break

    # ---- declarations: collect locals, bind auto, handle reference locals
    def r_locals(self):
        """find local declarations `T [&*] name (=|;|(|{|[|:)` at statement starts and inside for-init.
        registers their C type; rewrites auto/references."""
        toks = self.toks
        ctx = self.ctx
        tm = ctx['typemap']
        autos = ctx['fn'].get('autos', {})
        local_types = ctx['locals']
        refs = ctx['refs']
        i = 0
        def stmt_starts():
            res = []
            p = None
            for idx, t in enumerate(toks):
                if not sig(t): continue
                if p is None or (toks[p].k == 'op' and toks[p].t in (';', '{', '}')) or (toks[p].k == 'op' and toks[p].t == ')' and _is_ctrl_paren(toks, p)) or (toks[p].k == 'id' and toks[p].t in ('else', 'do')):
                    res.append(idx)
                elif toks[p].k == 'op' and toks[p].t == '(' and prev_sig(toks, p) is not None and toks[prev_sig(toks, p)].t == 'for':
                    res.append(idx)
                p = idx
            return res
        pos = 0
        while True:
            starts = [s for s in stmt_starts() if s >= pos]
            if not starts: break
            progressed = False
            for s in starts:
                r = self._try_decl(s)
                if r is not None:
                    pos = r
                    progressed = True
                    toks = self.toks
                    break
            if not progressed: break

    def _try_decl(self, s):
        toks = self.toks
        ctx = self.ctx
        tm = ctx['typemap']
        t = toks[s]
        if t.k != 'id': return None
        if t.t in ('return', 'if', 'while', 'for', 'do', 'else', 'break', 'continue', 'switch', 'case', 'goto', 'delete', 'new', 'sizeof', 'OP2_SWAP', 'op2_exc'):
            return None
        # gather type tokens
        j = s
        ttoks = []
        while True:
            x = toks[j]
            if x.k == 'id':
                ttoks.append(j)
                n = next_sig(toks, j)
                if n is None: return None
                if toks[n].t == '::':
                    ttoks.append(n); j = next_sig(toks, n); continue
                if toks[n].t == '<' and x.t not in SCALARS:
                    # template args only if the id is a known template-ish type
                    try:
                        e = match_angle(toks, n)
                    except ExtractionBreak:
                        return None
                    # heuristic: template type if followed by id or & or *
                    n3 = next_sig(toks, e)
                    if n3 is None or not (toks[n3].k == 'id' or toks[n3].t in ('&', '*', '::')):
                        return None
                    ttoks.extend(range(n, e + 1)); j = n3
                    if toks[j].t == '::':
                        ttoks.append(j); j = next_sig(toks, j)
                    continue
                j = n
                continue
            break
        # now toks[j] is the first non-id token after a run of ids; the last id is the name if run has >= 2 ids
        ids = [k for k in ttoks if toks[k].k == 'id']
        x = toks[j]
        ptr = ''
        isref = False
        if x.k == 'op' and x.t in ('*', '&') and len(ids) >= 1:
            # T * name   /  T & name
            k = j
            while toks[k].k == 'op' and toks[k].t in ('*', '&'):
                if toks[k].t == '*': ptr += '*'
                else: isref = True
                k = next_sig(toks, k)
            while toks[k].k == 'id' and toks[k].t == 'const':
                k = next_sig(toks, k)
            if toks[k].k != 'id': return None
            name_i = k
            after = next_sig(toks, k)
            type_end = j
        else:
            if len(ids) < 2: return None
            name_i = ids[-1]
            after = j
            type_end = name_i
        if toks[after].k != 'op' or toks[after].t not in ('=', ';', '(', '{', '[', ':', ','):
            return None
        if toks[name_i].t.startswith('@@'):
            return None     # already processed (range-for variable)
        tys = [toks[k] for k in range(s, type_end) if sig(toks[k])]
        tstr = norm_type(' '.join(x.t for x in tys))
        tstr = re.sub(r'\s*::\s*', '::', tstr)
        name = toks[name_i].t
        words = tstr.replace('const ', '').replace('static ', '').strip()
        if toks[after].t == '(' and words not in tm and words not in BASE_TYPEMAP and words != 'auto' and words not in ctx.get('ctor_calls', {}):
            return None     # a call like  foo bar( ... ) cannot be told from a declaration without a known type
        if toks[after].t in ('(', '{') and ((words in tm and tm[words] in ctx.get('ctor_calls', {})) or words in ctx.get('ctor_calls', {})):
            # R15: local object constructed with arguments  T x(args);  or  T x{args};  (a class with a user-provided constructor)
            e = match_fwd(toks, after)
            semi = next_sig(toks, e)
            if toks[semi].t != ';': return None
            cty0 = tm[words] if words in tm and tm[words] in ctx['ctor_calls'] else words
            ctor = ctx['ctor_calls'][cty0]
            new = toks[:s] + [T('id', cty0), T('ws', ' '), T('id', '@@' + name), T('op', ';'), T('ws', ' '), T('id', '@@CALL@@' + ctor['fn']), T('op', '('), T('op', '&'), T('id', '@@' + name)] \
                  + ([T('op', ','), T('ws', ' ')] + toks[after + 1:e] if strip_ws(toks[after + 1:e]) else []) + [T('op', ')'), T('op', ';')] + toks[semi + 1:]
            self.toks = new
            ctx['locals'][name] = cty0
            ctx.setdefault('ctor_constructed', set()).add(name)
            if ctor.get('throws'): ctx['throwers'].add(ctor['fn'])
            self.fire('R15obj')
            return s + 3
        static = 'static ' if tstr.startswith('static ') or ' static ' in tstr else ''
        tstr2 = tstr.replace('static ', '')
        if words == 'auto':
            autos = ctx['fn'].get('autos', {})
            if name not in autos:
                # R10 fallback: no binding in the unit file -> let the C compiler deduce it:  auto x = e;  ->  __typeof__(e) x = e;
                if toks[after].t != '=' or isref:
                    raise ExtractionBreak('R10: no type binding for `auto %s` in %s' % (name, ctx['fn']['cname']))
                e = after; d = 0
                while True:
                    e += 1
                    y = toks[e]
                    if y.k == 'op':
                        if y.t in OPEN: d += 1
                        elif y.t in CLOSE: d -= 1
                        elif y.t in (';', ',') and d == 0: break
                init = untok(strip_ws(toks[after + 1:e]))
                cty = '__typeof__(%s)' % init
                self.fire('R10typeof')
            else:
                cty = autos[name]
                self.fire('R10')
                ctx['auto_checks'].append((name, cty))
        else:
            try:
                cty, r2 = map_type(tstr2, tm)
            except ExtractionBreak:
                return None
        cty = cty + ptr
        if toks[after].t == ':' :
            # range-for; handled by r_rangefor before r_locals
            return None
        decl_c = cty
        if isref:
            # reference local:  T& x = expr;   ->   T* x = &(expr);
            if toks[after].t != '=':
                raise ExtractionBreak('reference local without initialiser')
            e = after
            d = 0
            while True:
                e += 1
                y = toks[e]
                if y.k == 'op':
                    if y.t in OPEN: d += 1
                    elif y.t in CLOSE: d -= 1
                    elif y.t == ';' and d == 0: break
            new = toks[:s] + [T('id', static + cty.replace('const ', '') + '*'), T('ws', ' '), T('id', '@@' + name), T('ws', ' '), T('op', '='), T('ws', ' '), T('op', '&'), T('op', '(')] + toks[after + 1:e] + [T('op', ')')] + toks[e:]
            self.toks = new
            ctx['locals'][name] = cty.replace('const ', '')
            ctx['refs'].add(name)
            self.fire('R3local')
            return s + 3
        if not ptr and tstr2.startswith('const ') and not decl_c.startswith('const '):
            decl_c = 'const ' + decl_c
        if '__typeof__(' in decl_c:
            dtoks = ([T('id', 'static'), T('ws', ' ')] if static else []) + tokenize(decl_c)
        else:
            dtoks = [T('id', static + decl_c)]
        new = toks[:s] + dtoks + [T('ws', ' '), T('id', '@@' + name)] + toks[name_i + 1:]
        self.toks = new
        ctx['locals'][name] = cty.replace('const ', '') if not ptr else cty
        return s + len(dtoks) + 2

    # ---- R9 range-for over a view
    def r_rangefor(self):
        toks = self.toks
        ctx = self.ctx
        i = 0
        n_rf = 0
        while i < len(toks):
            t = toks[i]
            if t.k == 'id' and t.t == 'for':
                p = next_sig(toks, i)
                e = match_fwd(toks, p)
                inner = toks[p + 1:e]
                parts = split_top(inner, ':')
                # a range-for has exactly one top-level ':' and no ';'
                if len(parts) == 2 and not any(x.k == 'op' and x.t == ';' for x in inner) and not any(x.k == 'op' and x.t == '?' for x in inner):
                    decl = [x for x in parts[0] if sig(x)]
                    coll = untok(strip_ws(parts[1]))
                    name = decl[-1].t
                    byref = any(x.t == '&' for x in decl)
                    rf = ctx['fn'].get('rangefor', {})
                    if name in rf:
                        ety = rf[name]
                    elif n_rf < len(rf) and list(rf.keys())[n_rf] not in [x.t for x in toks if x.k == 'id']:
                        # the n-th binding's variable no longer occurs in the body: the loop variable was renamed -- bindings are positional then
                        ety = list(rf.values())[n_rf]
                    else:
                        # R9typeof: unbound range-for variable -- element type taken from the container expression itself
                        ety = '__typeof__(@@ELEM(%s, 0))' % coll
                        self.fire('R9typeof')
                    idx = 'op2_i%d' % n_rf
                    n_rf += 1
                    body_s = next_sig(toks, e)
                    if toks[body_s].t != '{':
                        raise ExtractionBreak('R9: range-for body must be a block')
                    hdr = 'for (size_t %s = 0; %s < @@SIZEOF(%s); ++%s)' % (idx, idx, coll, idx)
                    if byref:
                        first = ' %s* @@%s = &(@@ELEM(%s, %s));' % (ety, name, coll, idx)
                        ctx['refs'].add(name)
                    else:
                        first = ' %s @@%s = @@ELEM(%s, %s);' % (ety, name, coll, idx)
                    ctx['locals'][name] = ety
                    new = toks[:i] + tokenize(hdr) + toks[e + 1:body_s + 1] + tokenize(first) + toks[body_s + 1:]
                    self.toks = toks = new
                    ctx['loops_rangefor'] = ctx.get('loops_rangefor', 0) + 1
                    self.fire('R9')
            i += 1

    # ---- R2/R3: members and reference uses
    def r_names(self):
        toks = self.toks
        ctx = self.ctx
        members = ctx['members']
        shadow = set(p['name'] for p in ctx['params']) | set(ctx['locals'].keys())
        refs = ctx['refs']
        out = []
        for i, t in enumerate(toks):
            if t.k == 'id':
                if t.t in ('@@SIZEOF', '@@ELEM') or t.t.startswith('@@CALL@@'):
                    out.append(t); continue
                if t.t.startswith('@@') and t.t[2:] and t.t[2:].isidentifier():
                    out.append(T('id', t.t[2:])); continue
                p = prev_sig(toks, i)
                pt = toks[p].t if p is not None else ''
                if t.t == 'this':
                    n = next_sig(toks, i)
                    if n is not None and toks[n].t == '->':
                        out.append(T('id', 'self')); self.fire('R2this'); continue
                    out.append(T('id', 'self')); continue
                if pt in ('.', '->', '::'):
                    out.append(t); continue
                if t.t in refs:
                    out.append(T('id', '(*%s)' % t.t)); self.fire('R3use'); continue
                if ctx['cls'] and not ctx['static'] and t.t in members and t.t not in shadow:
                    out.append(T('id', 'self->' + t.t)); self.fire('R2'); continue
                if ctx['cls'] and ctx['static'] and t.t in members and t.t not in shadow and pt == '(':
                    pp2 = prev_sig(toks, p)
                    if pp2 is not None and toks[pp2].t == 'sizeof':
                        out.append(T('id', '((%s*)0)->%s' % (ctx['cls'], t.t))); self.fire('R2sizeof'); continue
                if ctx['cls'] and t.t in ctx.get('statics', {}) and t.t not in shadow:
                    out.append(T('id', ctx['statics'][t.t])); self.fire('R2static'); continue
            out.append(t)
        self.toks = out

    # ---- R18: == / != on std::array / Tag operands  ->  byte comparison
    def type_of(self, expr):
        ctx = self.ctx
        e = expr.strip()
        while e.startswith('(') and e.endswith(')'):
            d = 0; ok = True
            for k, ch in enumerate(e):
                if ch == '(': d += 1
                elif ch == ')':
                    d -= 1
                    if d == 0 and k != len(e) - 1: ok = False; break
            if not ok: break
            e = e[1:-1].strip()
        deref = False
        if e.startswith('*'):
            e = e[1:].strip(); deref = True
        parts = re.split(r'\s*(?:\.|->)\s*', e)
        base = parts[0]
        base = re.sub(r'\[.*\]$', '', base)
        ty = None
        if base == 'self': ty = ctx['cls']
        elif base in ctx['locals']: ty = ctx['locals'][base]
        else:
            for p_ in ctx['params']:
                if p_['name'] == base: ty = p_['ctype']
            if ty is None: ty = ctx.get('global_types', {}).get(base)
        if ty is None: return None
        ty = ty.replace('const ', '').rstrip('*').strip()
        for f in parts[1:]:
            idx = '[' in f
            f = re.sub(r'\[.*\]$', '', f)
            fields = ctx.get('all_members', {}).get(ty)
            if not fields or f not in fields: return None
            ty = fields[f].replace('const ', '').rstrip('*').strip()
            if idx and ty.startswith('vec_'): ty = ty[4:]
        return ty

    def r_eq(self):
        changed = True
        while changed:
            changed = False
            toks = self.toks
            for i, t in enumerate(toks):
                if t.k == 'op' and t.t in ('==', '!=') :
                    p = prev_sig(toks, i); n = next_sig(toks, i)
                    if p is None or n is None: continue
                    # left operand: postfix chain ending at p
                    ls = p
                    if toks[p].t in (')', ']'):
                        ls = match_back(toks, p)
                        q = prev_sig(toks, ls)
                        while q is not None and (toks[q].k == 'id' and toks[q].t not in ('return', 'if', 'while') or toks[q].t in ('.', '->')):
                            ls = q; q = prev_sig(toks, q)
                    else:
                        q = prev_sig(toks, ls)
                        while q is not None and toks[q].t in ('.', '->'):
                            ls = prev_sig(toks, q)
                            if toks[ls].t in (')', ']'): ls = match_back(toks, ls)
                            q = prev_sig(toks, ls)
                    # right operand: postfix chain starting at n
                    re_ = n
                    while True:
                        q = next_sig(toks, re_)
                        if q is not None and toks[q].t in ('.', '->'):
                            re_ = next_sig(toks, q); continue
                        if q is not None and toks[q].t in ('(', '[') and toks[re_].k == 'id':
                            re_ = match_fwd(toks, q); continue
                        break
                    if toks[n].t == '(':
                        re_ = match_fwd(toks, n)
                    ltxt = untok(toks[ls:p + 1]); rtxt = untok(toks[n:re_ + 1])
                    lt = self.type_of(ltxt); rt = self.type_of(rtxt)
                    if (lt and (lt.startswith('arr_') or lt == 'Tag')) or (rt and (rt.startswith('arr_') or rt == 'Tag')):
                        neg = '!' if t.t == '!=' else ''
                        new = tokenize('%sOP2_BYTES_EQ(%s, %s)' % (neg, ltxt.strip(), rtxt.strip()))
                        self.toks = toks[:ls] + new + toks[re_ + 1:]
                        self.fire('R18')
                        changed = True
                        break

    # ---- calls
    def r_calls(self):
        """rewrite method calls according to ctx['calls'].
        calls: name -> spec or {arity: spec}; spec = dict(fn=cname, recv='addr'|'ptr'|'self'|'none', throws=bool)
        """
        ctx = self.ctx
        calls = ctx['calls']
        changed = True
        guard = 0
        while changed:
            guard += 1
            if guard > 2000: raise ExtractionBreak('r_calls does not terminate')
            changed = False
            toks = self.toks
            for i, t in enumerate(toks):
                if t.k != 'id' or t.t not in calls: continue
                n = next_sig(toks, i)
                if n is None: continue
                targs = None
                if toks[n].t == '<':
                    try:
                        ea = match_angle(toks, n)
                    except ExtractionBreak:
                        continue
                    n2 = next_sig(toks, ea)
                    if n2 is None or toks[n2].t != '(': continue
                    targs = norm_type(untok(toks[n + 1:ea]))
                    n = n2
                if toks[n].t != '(': continue
                e = match_fwd(toks, n)
                args = [strip_ws(a) for a in split_top(toks[n + 1:e])]
                args = [a for a in args if a]
                spec = calls[t.t]
                p = prev_sig(toks, i)
                pt = toks[p].t if p is not None else ''
                if isinstance(spec, list):
                    # receiver-directed binding: [(regex over receiver text, spec), ...]; '' = no receiver
                    rtxt0 = ''
                    if pt in ('.', '->'):
                        rtxt0 = untok(strip_ws(toks[recv_start(toks, p):p]))
                    elif pt == '::':
                        rtxt0 = toks[prev_sig(toks, p)].t + '::'
                    for rx, sp in spec:
                        if re.fullmatch(rx, rtxt0):
                            spec = sp; break
                    else:
                        raise ExtractionBreak('no callee binding for %s on receiver %r in %s' % (t.t, rtxt0, ctx['fn']['cname']))
                if 'fn' not in spec:
                    key = len(args) if targs is None else (targs, len(args))
                    if key not in spec:
                        if targs is not None and ('*', len(args)) in spec: key = ('*', len(args))
                        elif '*' in spec: key = '*'
                        else:
                            raise ExtractionBreak('no callee binding for %s with %s args (template %s) in %s' % (t.t, len(args), targs, ctx['fn']['cname']))
                    spec = spec[key]
                if isinstance(spec, list):
                    # argument-directed binding (overloads told apart by what is passed): [(regex over first argument text, spec)]
                    a0 = untok(args[0]).strip() if args else ''
                    for rx, sp in spec:
                        if re.fullmatch(rx, a0):
                            spec = sp; break
                    else:
                        raise ExtractionBreak('no callee binding for %s with first argument %r in %s' % (t.t, a0, ctx['fn']['cname']))
                fn = spec['fn']
                recv = spec.get('recv', 'auto')
                start = i
                rtoks = None
                if pt in ('.', '->'):
                    rs = recv_start(toks, p)
                    rtoks = toks[rs:p]
                    start = rs
                    rtxt = untok(strip_ws(rtoks))
                    if pt == '.':
                        rarg = tokenize('&(%s)' % rtxt)
                    else:
                        rarg = tokenize('(%s)' % rtxt)
                elif pt == '::':
                    # static call Class::f(...) -- drop the qualifier
                    q = prev_sig(toks, p)
                    start = q
                    q2 = prev_sig(toks, q)
                    while q2 is not None and toks[q2].t == '::':
                        start = prev_sig(toks, q2); q2 = prev_sig(toks, start)
                    rarg = None
                else:
                    rarg = tokenize('self') if (recv in ('self',) or (recv == 'auto' and ctx['cls'] and not ctx['static'] and not spec.get('free'))) else None
                if recv == 'none':
                    rarg = None
                newargs = []
                if rarg is not None: newargs.append(rarg)
                argmode = spec.get('args')
                for ai, a in enumerate(args):
                    if argmode and ai < len(argmode) and argmode[ai] == 'ref':
                        newargs.append(tokenize('&(') + a + tokenize(')'))
                    elif argmode and ai < len(argmode) and argmode[ai] == 'obj':
                        newargs.append(tokenize('&(') + a + tokenize('), sizeof(') + a + tokenize(')'))
                    elif argmode and ai < len(argmode) and argmode[ai] == 'objtmp':
                        # R17: a value (possibly a temporary) written through const T&: materialise it, pass address and size
                        newargs.append(tokenize('OP2_TMP_ADDR(') + a + tokenize('), sizeof(__typeof__(') + a + tokenize('))'))
                    elif argmode and ai < len(argmode) and argmode[ai] == 'vec':
                        newargs.append(tokenize('(') + a + tokenize(').data, (') + a + tokenize(').size * sizeof(*(') + a + tokenize(').data)'))
                    else:
                        newargs.append(a)
                if argmode and 'objtmp' in argmode:
                    # R17: value written through `const T&` -- materialise it in a named local of a new block
                    semi = next_sig(toks, e)
                    pv = prev_sig(toks, start)
                    if semi is None or toks[semi].t != ';' or not (pv is None or toks[pv].t in (';', '{', '}', ')') or toks[pv].t.startswith('if (op2_exc)')):
                        raise ExtractionBreak('R17: write of a temporary must be an expression statement (%s)' % ctx['fn']['cname'])
                    ai = argmode.index('objtmp')
                    blk = [T('op', '{'), T('ws', ' '), T('id', '__typeof__'), T('op', '(')] + args[ai] + [T('op', ')'), T('ws', ' '), T('id', 'op2_obj'), T('ws', ' '), T('op', '='), T('ws', ' ')] + args[ai] + [T('op', ';'), T('ws', ' ')]
                    call = [T('id', '@@CALL@@' + fn), T('op', '(')]
                    first = True
                    if rarg is not None:
                        call += rarg; first = False
                    for aj, a in enumerate(args):
                        if not first: call += [T('op', ','), T('ws', ' ')]
                        first = False
                        if aj == ai: call += tokenize('&op2_obj, sizeof(op2_obj)')
                        else: call += a
                    call += [T('op', ')'), T('op', ';'), T('ws', ' '), T('op', '}')]
                    self.toks = toks[:start] + blk + call + toks[semi + 1:]
                    self.fire('R17')
                    if spec.get('throws'): ctx['throwing_sites'] = ctx.get('throwing_sites', 0) + 1
                    changed = True
                    break
                call = [T('id', '@@CALL@@' + fn), T('op', '(')]
                for ai, a in enumerate(newargs):
                    if ai: call += [T('op', ','), T('ws', ' ')]
                    call += a
                call.append(T('op', ')'))
                self.toks = toks[:start] + call + toks[e + 1:]
                self.fire('R1call')
                if spec.get('throws'):
                    ctx['throwing_sites'] = ctx.get('throwing_sites', 0) + 1
                changed = True
                break
        # un-mark
        for t in self.toks:
            if t.k == 'id' and t.t.startswith('@@CALL@@'):
                t.t = t.t[8:]

    # ---- R6 propagate after statements that contain a call to a throwing callee
    def r_propagate(self, prop_text):
        ctx = self.ctx
        throwers = set(ctx['throwers'])
        if not throwers: return
        toks = self.toks
        out = []
        i = 0
        # statement-level: find ';' at paren-depth 0 ending a statement that contains a thrower call
        n = len(toks)
        depth_stack = []
        stmt_has = False
        paren = 0
        ctrl_paren_has = []
        insert_after_block_open = False
        i = 0
        pend_stack = []   # for control statements with thrower in condition: add propagate after the whole statement
        while i < n:
            t = toks[i]
            out.append(t)
            if t.k == 'id' and t.t in throwers:
                nx = next_sig(toks, i)
                if nx is not None and toks[nx].t == '(':
                    stmt_has = True
            if t.k == 'op':
                if t.t == '(':
                    paren += 1
                elif t.t == ')':
                    paren -= 1
                    if paren == 0 and stmt_has and _is_ctrl_paren(toks, i):
                        # thrower inside a control condition: propagate at start of the controlled block
                        nb = next_sig(toks, i)
                        if nb is None or toks[nb].t != '{':
                            # loop contracts may sit between ')' and '{' -- not yet spliced at this point
                            raise ExtractionBreak('R6: controlled statement after a throwing condition must be a block')
                        # copy ws up to the brace, the brace, then the propagate
                        for z in range(i + 1, nb + 1):
                            out.append(toks[z])
                        out.append(T('id', ' ' + prop_text))
                        # and after the whole controlled statement
                        be = match_fwd(toks, nb)
                        pend_stack.append(be)
                        # else branch
                        ne = next_sig(toks, be)
                        if ne is not None and toks[ne].k == 'id' and toks[ne].t == 'else':
                            raise ExtractionBreak('R6: else after throwing condition unsupported')
                        i = nb + 1
                        stmt_has = False
                        self.fire('R6c')
                        continue
                elif t.t == ';' and paren == 0:
                    if stmt_has:
                        # an assignment  LHS = f(...);  whose call throws must leave LHS untouched (C++ never performs the store)
                        k = len(out) - 1      # index of ';' in out
                        st = k - 1
                        d2 = 0
                        while st >= 0:
                            x = out[st]
                            if x.k == 'op':
                                if x.t == '}' and d2 == 0: break          # end of the previous (block) statement
                                if x.t in (')', ']', '}'): d2 += 1
                                elif x.t in ('(', '[', '{'):
                                    if d2 == 0: break
                                    d2 -= 1
                                elif x.t == ';' and d2 == 0: break
                            if x.k == 'id' and x.t.lstrip().startswith('if (op2_exc)') and d2 == 0: break
                            st -= 1
                        stmt = out[st + 1:k]
                        # R6nest: a throwing call nested in the ARGUMENT LIST of another call is hoisted in front of the statement
                        #   outer(a, thrower(b));   ->   __typeof__(thrower(b)) op2_hN = thrower(b); if (op2_exc) return; outer(a, op2_hN);
                        # (C++ abandons the full expression when the inner call throws; without hoisting the outer call would still run here)
                        hoisted = []
                        while True:
                            d4 = 0; found = None; opens = []
                            for zi, x in enumerate(stmt):
                                if x.k == 'op' and x.t in OPEN:
                                    pz = zi - 1
                                    while pz >= 0 and not sig(stmt[pz]): pz -= 1
                                    opens.append(x.t == '(' and pz >= 0 and stmt[pz].k == 'id' and stmt[pz].t not in ('if', 'while', 'for', 'switch', 'return', 'sizeof', '__typeof__'))
                                elif x.k == 'op' and x.t in CLOSE:
                                    if opens: opens.pop()
                                elif x.k == 'id' and x.t in throwers and any(opens):
                                    nz = zi + 1
                                    while nz < len(stmt) and not sig(stmt[nz]): nz += 1
                                    if nz < len(stmt) and stmt[nz].t == '(':
                                        found = (zi, match_fwd(stmt, nz)); break
                            if not found: break
                            a_, b_ = found
                            hn = 'op2_h%d' % ctx.setdefault('n_hoist', 0); ctx['n_hoist'] += 1
                            call_txt = untok(stmt[a_:b_ + 1])
                            hoisted += tokenize('__typeof__(%s) %s = %s; %s ' % (call_txt, hn, call_txt, prop_text))
                            stmt = stmt[:a_] + [T('id', hn)] + stmt[b_ + 1:]
                            self.fire('R6nest')
                        if hoisted:
                            ws0h = []
                            for x in stmt:
                                if sig(x): break
                                ws0h.append(x)
                            stmt = ws0h + hoisted + stmt[len(ws0h):]
                            out[st + 1:k] = stmt
                            k = st + 1 + len(stmt)
                            stmt_has = any(x.k == 'id' and x.t in throwers for x in stmt[len(ws0h) + len(hoisted):])
                            stmt = stmt[len(ws0h) + len(hoisted):]
                            st = k - len(stmt) - 1
                            if not stmt_has:
                                stmt_has = False
                                i += 1
                                continue
                        ssig = [x for x in stmt if sig(x)]
                        eqi = None; d3 = 0
                        for zi, x in enumerate(stmt):
                            if x.k == 'op':
                                if x.t in OPEN: d3 += 1
                                elif x.t in CLOSE: d3 -= 1
                                elif x.t == '=' and d3 == 0: eqi = zi; break
                        is_decl = (len(ssig) >= 2 and ssig[0].k == 'id' and (ssig[1].k == 'id' or ssig[1].t == '*') and ssig[0].t not in ('return',)) \
                                  or (ssig and ssig[0].t in ('__typeof__', 'const', 'static'))
                        if eqi is not None and not is_decl and ssig and ssig[0].t != 'return':
                            lhs = untok(strip_ws(stmt[:eqi])); rhs = untok(strip_ws(stmt[eqi + 1:]))
                            lead = [x for x in stmt[:len(stmt) - len(strip_ws(stmt))]] if False else []
                            new_stmt = tokenize('{ __typeof__(%s) op2_tmp = %s; %s %s = op2_tmp; }' % (lhs, rhs, prop_text, lhs))
                            ws0 = []
                            for x in stmt:
                                if sig(x): break
                                ws0.append(x)
                            out[st + 1:k + 1] = ws0 + new_stmt
                            self.fire('R6assign')
                        else:
                            out.append(T('id', ' ' + prop_text))
                            self.fire('R6')
                    stmt_has = False
                elif t.t == '}':
                    if pend_stack and pend_stack[-1] == i:
                        pend_stack.pop()
                        out.append(T('id', ' ' + prop_text))
                elif t.t == '{':
                    pass
            i += 1
        self.toks = out

    # ---- loop contracts
    def splice_loops(self, loop_contracts):
        """insert loop contract text for the n-th loop (source order of for/while/do keywords)."""
        toks = self.toks
        # enumerate loops
        loops = []
        i = 0
        while i < len(toks):
            t = toks[i]
            if t.k == 'id' and t.t in ('for', 'while', 'do'):
                if t.t == 'while':
                    # skip the while of a do-while (preceded by '}' that closes a do block) -- detect via marker list
                    pass
                loops.append(i)
            i += 1
        # resolve do-while pairing: a 'while' directly after the block of a 'do' belongs to it
        real = []
        skip = set()
        for li in loops:
            if li in skip: continue
            t = toks[li]
            if t.t == 'do':
                b = next_sig(toks, li)
                if toks[b].t != '{': raise ExtractionBreak('do without block')
                be = match_fwd(toks, b)
                w = next_sig(toks, be)
                if not (toks[w].k == 'id' and toks[w].t == 'while'): raise ExtractionBreak('do without while')
                skip.add(w)
                p = next_sig(toks, w); pe = match_fwd(toks, p)
                real.append(('do', li, li))      # CBMC 6.11: the contract of a do-while goes right after the `do` keyword
            else:
                p = next_sig(toks, li); pe = match_fwd(toks, p)
                real.append((t.t, li, pe))
        self.ctx['nloops'] = len(real)
        inserts = []
        for n_, (kind, li, pe) in enumerate(real):
            if n_ in loop_contracts:
                text = loop_contracts[n_]
                if '@IDX' in text:
                    # @IDX in a loop contract names the induction variable of THAT for loop (the variable its init clause declares), whatever it is called
                    if kind != 'for': raise ExtractionBreak('@IDX used on a %s loop in %s' % (kind, self.ctx['fn']['cname']))
                    p = next_sig(toks, li)
                    init = []
                    k = p + 1
                    while not (toks[k].k == 'op' and toks[k].t in (';', '=')): 
                        if sig(toks[k]): init.append(toks[k])
                        k += 1
                    if len(init) < 2 or init[-1].k != 'id': raise ExtractionBreak('@IDX: cannot find the induction variable of loop %d in %s' % (n_, self.ctx['fn']['cname']))
                    text = text.replace('@IDX', init[-1].t)
                inserts.append((pe + 1, text))
        for pos, text in sorted(inserts, reverse=True):
            toks[pos:pos] = [T('ws', '\n'), T('id', text), T('ws', '\n')]
        used = set(n_ for n_ in loop_contracts if n_ < len(real))
        missing = set(loop_contracts) - used
        if missing:
            raise ExtractionBreak('loop contract for loop %s but function %s has only %d loops' % (sorted(missing), self.ctx['fn']['cname'], len(real)))
        self.toks = toks


def _is_ctrl_paren(toks, close_idx):
    """is toks[close_idx] the ')' closing an if/while/for/switch header?"""
    try:
        o = match_back(toks, close_idx)
    except ExtractionBreak:
        return False
    p = prev_sig(toks, o)
    return p is not None and toks[p].k == 'id' and toks[p].t in ('if', 'while', 'for', 'switch')

def recv_start(toks, dot_idx):
    """scan backwards from the '.'/'->' at dot_idx to the start of the receiver postfix-expression"""
    j = prev_sig(toks, dot_idx)
    while True:
        t = toks[j]
        if t.k == 'op' and t.t in (')', ']'):
            j = match_back(toks, j)
            p = prev_sig(toks, j)
            if p is not None and (toks[p].k == 'id' and toks[p].t not in ('return', 'if', 'while', 'for') or toks[p].t in (')', ']')):
                j = p
                continue
            return j
        if t.k == 'id':
            p = prev_sig(toks, j)
            if p is not None and toks[p].t in ('.', '->', '::'):
                j = prev_sig(toks, p)
                continue
            # unary * deref directly before an identifier inside parens is part of "(*x)" and handled by the paren case
            return j
        raise ExtractionBreak('cannot find receiver of call')

# --------------------------------------------------------------------------- view rewriting (R8) -- text level, driven by names
def rewrite_views(text, views):
    """views: dict  expr-regex(name or dotted path, already C) -> kind.  Handles
         X.size() X.length() X.empty() X.data() X[i] X.front() X.back() X.c_str() X.clear()
       for every X that is a *known view-typed lvalue spelling* (regex), plus @@SIZEOF/@@ELEM from range-for."""
    # range-for helpers first
    def repl_sizeof(m):
        return '(%s).size' % m.group(1)
    # @@SIZEOF(expr) / @@ELEM(expr, idx): expr is a view
    out = text
    while True:
        m = re.search(r'@@SIZEOF\(', out)
        if not m: break
        s = m.end(); d = 1; k = s
        while d:
            if out[k] == '(': d += 1
            elif out[k] == ')': d -= 1
            k += 1
        inner = out[s:k - 1]
        out = out[:m.start()] + inner + '.size()' + out[k:]
    while True:
        m = re.search(r'@@ELEM\(', out)
        if not m: break
        s = m.end(); d = 1; k = s
        while d:
            if out[k] == '(': d += 1
            elif out[k] == ')': d -= 1
            k += 1
        inner = out[s:k - 1]
        coll, idx = inner.rsplit(',', 1)
        out = out[:m.start()] + coll.strip() + '[' + idx.strip() + ']' + out[k:]
    for pat, kind in views:
        X = r'(?P<x>(?<![\w.>])' + pat + r')'
        if kind == 'vec' or kind == 'str':
            out = re.sub(X + r'\s*\.\s*(?:size|length)\s*\(\s*\)', r'\g<x>.size', out)
            out = re.sub(X + r'\s*\.\s*empty\s*\(\s*\)', r'(\g<x>.size == 0)', out)
            out = re.sub(X + r'\s*\.\s*(?:data|c_str)\s*\(\s*\)', r'\g<x>.data', out)
            out = re.sub(X + r'\s*\.\s*front\s*\(\s*\)', r'\g<x>.data[0]', out)
            out = re.sub(X + r'\s*\.\s*back\s*\(\s*\)', r'\g<x>.data[\g<x>.size - 1]', out)
            out = re.sub(X + r'\s*\[', r'\g<x>.data[', out)
        elif kind == 'vecptr':
            # std::vector<std::unique_ptr<T>> modelled as a vector of T owned by the vector: element i is the pointer &data[i]
            out = re.sub(X + r'\s*\.\s*(?:size|length)\s*\(\s*\)', r'\g<x>.size', out)
            def _vp(m_):
                st = m_.end(); d_ = 1; k_ = st
                return None
            while True:
                m_ = re.search(X + r'\s*\[', out)
                if not m_: break
                st = m_.end(); d_ = 1; k_ = st
                while d_:
                    if out[k_] == '[': d_ += 1
                    elif out[k_] == ']': d_ -= 1
                    k_ += 1
                out = out[:m_.start()] + '(&' + m_.group('x') + '.@@DATA@@[' + out[st:k_ - 1] + '])' + out[k_:]
            out = out.replace('.@@DATA@@[', '.data[')
        elif kind == 'arr':
            out = re.sub(X + r'\s*\.\s*data\s*\(\s*\)', r'\g<x>.e', out)
            out = re.sub(X + r'\s*\.\s*size\s*\(\s*\)', r'(sizeof(\g<x>.e)/sizeof(\g<x>.e[0]))', out)
            out = re.sub(X + r'\s*\[', r'\g<x>.e[', out)
    return out

# --------------------------------------------------------------------------- unit assembly
def sha(s):
    return hashlib.sha256(s.encode()).hexdigest()[:16]

def load_contracts(path):
    """contracts file format:
         @function <cname>          -- text up to next @ line is spliced between signature and body
         @loop <cname> <n>          -- loop contract of n-th loop
         @pre                       -- C text emitted before the extracted functions (spec macros, abstract callees)
         @post                      -- C text emitted after them (harnesses, lemmas)
    """
    res = {'function': {}, 'loop': {}, 'pre': '', 'post': '', 'requires_extra': {}}
    if not os.path.exists(path): return res
    cur = None
    buf = []
    def flush():
        if cur is None: return
        txt = ''.join(buf)
        if cur[0] == 'function': res['function'][cur[1]] = txt
        elif cur[0] == 'loop': res['loop'].setdefault(cur[1], {})[int(cur[2])] = txt
        elif cur[0] == 'pre': res['pre'] += txt
        elif cur[0] == 'post': res['post'] += txt
    for line in open(path):
        if line.startswith('@'):
            flush()
            cur = line[1:].split()
            buf = []
        else:
            buf.append(line)
    flush()
    return res

def extract_function(fn, unit, repo, filecache, contracts):
    path = os.path.join(repo, fn['file'])
    if path not in filecache:
        filecache[path] = tokenize(open(path).read())
    toks = filecache[path]
    typemap = dict(unit.get('typemap', {}))
    typemap.update(fn.get('typemap', {}))
    fd = find_function(toks, fn['qual'], inclass=fn.get('inclass'), ordinal=fn.get('ordinal', 0), nparams=fn.get('nparams'))
    cls = fn.get('cls')
    static = fn.get('static', False)
    is_ctor = fn.get('ctor', False)
    # return type
    rt = [x.t for x in fd.ret_toks if x.t not in ('static', 'inline', 'virtual', 'constexpr', 'explicit')]
    # drop template<...> prefix
    rts = ' '.join(rt)
    rts = re.sub(r'\s*::\s*', '::', rts)
    if 'template' in rt:
        # cut through the matching '>' of template<...>: the config gives the return type explicitly
        rts = fn.get('ret_cxx', 'void')
    if 'ret_cxx' in fn: rts = fn['ret_cxx']
    if is_ctor:
        cret = 'void'
    else:
        rts = re.sub(r'^\w+::(?=\w+::)', '', rts) if rts.count('::') > 1 and rts.split('::')[0] == cls else rts
        cret, _ = map_type(rts if rts else 'void', typemap)
    params = [parse_param(p, typemap, fn.get('tbind')) for p in fd.params]
    # generic (template T&) parameters: (void* p, size_t p_size)
    ctx = {
        'typemap': typemap, 'members': fn.get('members', unit.get('members', {}).get(cls, {})) if cls else {},
        'params': params, 'cls': cls, 'static': static, 'fn': fn, 'locals': {}, 'refs': set(p['name'] for p in params if p['is_ref']),
        'calls': dict(unit.get('calls', {})), 'scoped': unit.get('scoped', {}), 'throwing_calls': unit.get('throwing_calls', ()),
        'auto_checks': [],
        'ctor_calls': unit.get('ctor_calls', {}),
        'statics': dict({nm: '%s_%s' % (cls, nm) for nm in unit.get('statics', {}).get(cls, [])} if cls else {}, **{nm.split('::')[-1]: cn for (nm, cn) in unit.get('global_names', []) if cls and nm.startswith(cls + '::')}),
        'struct_names': list(unit.get('members', {}).keys()),
        'all_members': unit.get('members', {}),
        'global_types': dict(unit.get('global_types', {})),
    }
    ctx['calls'].update(fn.get('calls', {}))
    throwers = set()
    def _leaves(spec):
        if isinstance(spec, list):
            for _, sp in spec: yield from _leaves(sp)
        elif 'fn' in spec: yield spec
        else:
            for sp in spec.values(): yield from _leaves(sp)
    for nm, spec in ctx['calls'].items():
        for s in _leaves(spec):
            if s.get('throws'): throwers.add(s['fn'])
    ctx['throwers'] = throwers
    body = Body(list(toks[fd.body_open:fd.body_close + 1]), ctx)
    throw_text = '{ op2_exc = 1; return%s; }' % ('' if cret == 'void' else ' op2_ret')
    prop_text = 'if (op2_exc) return%s;' % ('' if cret == 'void' else ' op2_ret')
    body.r_using()
    body.r_trycatch()
    body.r_throw(throw_text)
    body.r_casts()
    body.r_std()
    body.r_scoped()
    body.r_funcast()
    body.r_aggregate()
    body.r_rangefor()
    body.r_locals()
    body.r_names()
    body.r_calls()
    body.r_eq()
    body.r_propagate(prop_text)
    lc = contracts['loop'].get(fn['cname'], {})
    body.splice_loops(lc)
    text = untok(body.toks)
    # ctor initialiser list
    init_text = ''
    if is_ctor and fd.init:
        a, b = fd.init
        items = split_top(toks[a + 1:b])
        inits = {}; brace_init = {}
        for it in items:
            it = strip_ws(it)
            if not it: continue
            nm = it[0].t
            o = next(i for i, x in enumerate(it) if x.k == 'op' and x.t in ('(', '{'))
            brace_init[nm] = (it[o].t == '{')
            expr = it[o + 1:-1]
            ib = Body(list(expr), dict(ctx, locals={}, refs=set(p['name'] for p in params if p['is_ref'])))
            ib.r_casts(); ib.r_std(); ib.r_scoped(); ib.r_funcast(); ib.r_names(); ib.r_calls()
            inits[nm] = untok(ib.toks).strip()
        order = fn.get('member_order') or list(ctx['members'].keys())
        lines = []
        for m in order:
            mt = ctx['members'].get(m, '')
            if m not in inits and mt in unit.get('default_ctors', {}):
                lines.append('  %s(&self->%s);   /* default-constructed member */' % (unit['default_ctors'][mt], m))
            if m not in inits and (mt.startswith('vec_') or mt == 'str'):
                lines.append('  self->%s = (%s){ 0, 0 };   /* default-constructed (empty) container */' % (m, mt))
            if m in inits:
                if fn.get('init_as_call', {}).get(m):
                    lines.append('  %s;' % fn['init_as_call'][m].replace('$', inits[m]))
                elif mt in unit.get('members', {}) and brace_init.get(m):
                    lines.append('  self->%s = (%s){ %s };' % (m, mt, inits[m]))     # aggregate member initialised with braces
                else:
                    lines.append('  self->%s = (%s);' % (m, inits[m]))
        for m in inits:
            if m not in order:
                raise ExtractionBreak('R15: initialiser for unknown member %s' % m)
        init_text = '\n'.join(lines) + '\n'
        body.fire('R15', len(lines))
    # views
    views = []
    late_views = list(unit.get('views', [])) + list(fn.get('views', []))     # explicit (nested-path) views see the text after the automatic ones
    def _vk(ct):
        ct = ct.replace('const ', '').strip()
        if ct in unit.get('vecptr_types', ()): return 'vecptr'
        if ct.startswith('vec_'): return 'vec'
        if ct == 'str': return 'str'
        if ct.startswith('arr_'): return 'arr'
        return None
    for p_ in params:
        k_ = _vk(p_['ctype'])
        if k_: views.append(((r'\(\*%s\)' % p_['name']) if p_['is_ref'] else p_['name'], k_))
    for ln, lt in ctx['locals'].items():
        k_ = _vk(lt)
        if k_: views.append(((r'\(\*%s\)' % ln) if ln in ctx['refs'] else ln, k_))
    for mn, mt in (ctx['members'] or {}).items():
        k_ = _vk(mt)
        if k_ and cls and not static: views.append((r'self->%s' % mn, k_))
    text = rewrite_views(text, views + late_views)
    for rx_, rep_ in list(unit.get('text_subst', [])) + list(fn.get('text_subst', [])):
        # R21: rare constructs with no token-level rule (a stream object in boolean context); every substitution is listed in the unit file
        text, nts = re.subn(rx_, rep_, text)
        if nts: body.fire('R21', nts)
    if '@@' in text:
        raise ExtractionBreak('unresolved marker in %s' % fn['cname'])
    for lname, lt in ctx['locals'].items():
        if lt in unit.get('default_ctors', {}) and lname not in ctx['refs'] and lname not in ctx.get('ctor_constructed', ()):
            # R15: a local of class type declared without initialiser runs the default constructor
            text, nlc = re.subn(r'(\b%s\s+%s\s*;)' % (re.escape(lt), re.escape(lname)), r'\1 %s(&%s);' % (unit['default_ctors'][lt], lname), text)
            if nlc: body.fire('R15local', nlc)
    if cret != 'void':
        # R16: braced return of an aggregate  ->  C compound literal of the declared return type
        text, nbr = re.subn(r'\breturn\s*\{', 'return (%s){' % cret, text)
        if nbr: body.fire('R16ret', nbr)
    # signature
    cparams = []
    if cls and not static:
        cparams.append('%s* self' % fn.get('self_type', cls))
    for p in params:
        ct = p['ctype']
        if p['is_ref']:
            ct = ct + '*'
        cparams.append('%s %s' % (ct, p['name']))
    sigtxt = '%s %s(%s)' % (cret, fn['cname'], ', '.join(cparams) if cparams else 'void')
    contract = contracts['function'].get(fn['cname'], '')
    inner = text.strip()
    assert inner[0] == '{' and inner[-1] == '}'
    pre = ''
    if cret != 'void':
        pre = '  %s op2_ret;\n' % cret
    ctext = '%s\n%s{\n%s%s%s\n}\n' % (sigtxt, contract, pre, init_text, inner[1:-1])
    info = {
        'cname': fn['cname'], 'qual': fn['qual'], 'file': fn['file'],
        'body_sha': sha(untok(toks[fd.body_open:fd.body_close + 1])),
        'rules': body.fired, 'signature': sigtxt, 'has_contract': bool(contract.strip()),
        'nloops': ctx.get('nloops', 0), 'loop_contracts': sorted(lc.keys()),
        'auto_checks': ctx['auto_checks'],
    }
    # line range
    pre_text = untok(toks[:fd.name_start]); body_text = untok(toks[fd.name_start:fd.body_close + 1])
    info['lines'] = [pre_text.count('\n') + 1, pre_text.count('\n') + 1 + body_text.count('\n')]
    return sigtxt, ctext, info

def tag_init(init):
    m = re.fullmatch(r'MakeTag\s*\(\s*"(....)"\s*\)', init.strip())
    if not m: return None
    return '{ { ' + ', '.join("'%s'" % ch for ch in m.group(1)) + ' } }'

def extract_global(text, gdef, typemap):
    """constant defined at namespace scope:  const T Class::Name = v;   or   const std::array<T,N> Class::Name{ a, b };"""
    toks = tokenize(text)
    parts = gdef['qual'].split('::')
    sidx = [i for i, t in enumerate(toks) if sig(t)]
    for p in range(len(sidx)):
        ok = all(toks[sidx[p + 2 * q]].t == parts[q] and (q == len(parts) - 1 or toks[sidx[p + 2 * q + 1]].t == '::') for q in range(len(parts)) if p + 2 * q + 1 < len(sidx))
        if not ok: continue
        e = sidx[p + 2 * (len(parts) - 1)]
        n = next_sig(toks, e)
        if n is None or toks[n].t not in ('=', '{'): continue
        pv = prev_sig(toks, sidx[p])
        if pv is None or toks[pv].t in ('.', '->', '(', ',', 'return', '=', '::'): continue
        j = n; d = 0
        while True:
            x = toks[j]
            if x.k == 'op':
                if x.t in OPEN: d += 1
                elif x.t in CLOSE: d -= 1
                elif x.t == ';' and d == 0: break
            j += 1
        init = untok(toks[n:j]).strip()
        if init.startswith('='): init = init[1:].strip()
        cty = gdef['ctype']
        if cty == 'Tag' and tag_init(init):
            init = tag_init(init)
        if cty.startswith('arr_') and init.startswith('"'):
            # char array initialised from a string literal (the literal's terminator fills the last element)
            init = '{ ' + init + ' }'
        if cty.startswith('arr_') and init.startswith('{'):
            init = '{ ' + init + ' }'
        init = re.sub(r'\b(\w+)::(\w+)\b', r'\1_\2', init)
        return 'static const %s %s = %s;\n' % (cty, gdef['cname'], init)
    raise ExtractionBreak('definition of constant %s not found' % gdef['qual'])

def extract_unit(unit, repo, contracts_dir):
    filecache = {}
    contracts = load_contracts(os.path.join(contracts_dir, unit['name'] + '.contracts'))
    parts = ['/* GENERATED by extract/cxx2c.py from %s -- do not edit */\n' % repo,
             '#include "prelude.h"\n']
    for inc in unit.get('includes', []):
        parts.append('#include "%s"\n' % inc)
    typemap = unit.get('typemap', {})
    for e in unit.get('enums', []):
        parts.append(extract_enum(open(os.path.join(repo, e[0])).read(), e[1], typemap))
    unit.setdefault('members', {})
    for s in unit.get('structs', []):
        if isinstance(s, str):
            parts.append(s + '\n'); continue
        f, name = s[0], s[1]
        opts = s[2] if len(s) > 2 else {}
        txt, fields = extract_struct(open(os.path.join(repo, f)).read(), name, dict(typemap, **opts.get('typemap', {})), opts.get('packed', False), opts.get('cname'))
        for bf_, bn_ in reversed(opts.get('bases', [])):
            # R1: data members of a base class come first (single inheritance, no virtual bases)
            btxt, bfields = extract_struct(open(os.path.join(repo, bf_)).read(), bn_, dict(typemap, **opts.get('typemap', {})), False, '__base__')
            blines = [l for l in btxt.splitlines() if l.startswith('  ') and not l.startswith('  }')]
            txt = txt.replace('{\n', '{\n  /* base class %s */\n' % bn_ + '\n'.join(blines) + '\n', 1)
            fields = bfields + fields
        parts.append(txt)
        unit['members'][opts.get('cname', name)] = {nm: ct for ct, nm, _, _ in fields}
        unit.setdefault('statics', {})[opts.get('cname', name)] = list(extract_struct.last_statics)
        if opts.get('cname'): unit['members'][name] = unit['members'][opts['cname']]
    for gdef in unit.get('globals', []):
        parts.append(extract_global(open(os.path.join(repo, gdef['file'])).read(), gdef, typemap))
        unit.setdefault('global_names', []).append((gdef['qual'], gdef['cname']))
        unit.setdefault('global_types', {})[gdef['cname']] = gdef['ctype']
    parts.append(contracts['pre'])
    infos = []
    sigs = []
    bodies = []
    for fn in unit['functions']:
        sigtxt, ctext, info = extract_function(fn, unit, repo, filecache, contracts)
        sigs.append(sigtxt + ';\n')
        bodies.append(ctext)
        infos.append(info)
    unknown = set(contracts['function']) - set(f['cname'] for f in unit['functions'])
    if unknown:
        raise ExtractionBreak('contracts for functions not in unit %s: %s' % (unit['name'], sorted(unknown)))
    parts.append('\n/* ---- prototypes ---- */\n')
    parts.extend(sigs)
    parts.append('\n/* ---- extracted functions ---- */\n')
    parts.extend(b + '\n' for b in bodies)
    parts.append(contracts['post'])
    return ''.join(parts), infos
