// Native confirmation for the adaptive Huffman tree (C15): the verifier's counterexample is an arbitrary well-formed tree
// state, which the public API can only reach through a history of updates; the driver therefore searches short histories
// (and the one long history that exhausts the 16-bit root counter) for the failed assertion on the REAL class.
#define private public
#include "Archive/AdaptiveHuffmanTree.h"
#undef private
#include "replay_util.h"
#include <vector>
using namespace OP2Utility::Archive;

static bool encodeDecodeAgree(AdaptiveHuffmanTree& t, int T, std::string& why) {
	for (int code = 0; code < T; ++code) {
		unsigned int n = 0; unsigned int bits = t.GetEncodedBitString((unsigned short)code, n);
		auto node = t.GetRootNodeIndex();
		for (unsigned k = 0; k < n; ++k) { if (t.IsLeaf(node)) { why = "walk hits a leaf early"; return false; } node = t.GetChildNode(node, (bits >> k) & 1); }
		if (!t.IsLeaf(node) || t.GetNodeData(node) != code) { why = "walk for symbol " + std::to_string(code) + " ends on the wrong node"; return false; }
	}
	return true;
}
int main(int argc, char** argv)
{
	// (a) encoder/decoder agreement over every history of length <= 5 on 2..4 symbols
	bool shown = false;
	for (int T = 2; T <= 4 && !shown; ++T) {
		int total = 1; for (int d = 0; d < 5; ++d) total *= T;
		for (int h = 0; h < total && !shown; ++h) {
			AdaptiveHuffmanTree t((unsigned short)T);
			int x = h; std::string hist;
			for (int d = 0; d < 5 && !shown; ++d) {
				int c = x % T; x /= T; t.UpdateCodeCount((unsigned short)c); hist += std::to_string(c) + " ";
				std::string why;
				if (!encodeDecodeAgree(t, T, why)) { confirmed("T=%d history [%s]: encoder bit string does not lead the decoder to the symbol (%s)", T, hist.c_str(), why.c_str()); shown = true; }
			}
		}
	}
	// (b) counter capacity: the update that would wrap the 16-bit root count must be refused and leave the tree unchanged
	{
		AdaptiveHuffmanTree t(2);
		bool threw = false; long n = 0;
		try { for (; n < 65533; ++n) t.UpdateCodeCount(0); } catch (const std::exception&) { threw = true; }
		if (threw) printf("note: refused already after %ld updates\n", n);
		auto before = t.subtreeCount;
		bool refused = false;
		try { t.UpdateCodeCount(0); } catch (const std::exception&) { refused = true; }
		if (!refused) confirmed("T=2: update number 65534 (root count 65535) was accepted; root count is now %u", (unsigned)t.subtreeCount[t.rootNodeIndex]);
		else if (t.subtreeCount != before) confirmed("refused update changed the tree");
	}
	// (c) out-of-range symbol
	{
		AdaptiveHuffmanTree t(3); bool refused = false;
		try { t.UpdateCodeCount(3); } catch (const std::exception&) { refused = true; }
		if (!refused) confirmed("UpdateCodeCount(3) on a 3-symbol tree accepted");
	}
	return finish();
}
