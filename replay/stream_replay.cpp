// Native replay of verifier counterexamples on the REAL stream classes (DESIGN 3.6).
// Built with  -fsanitize=address,undefined ; private members reached in this TU only.
#define private public
#define protected public
#include "Stream/MemoryReader.h"
#include "Stream/MemoryWriter.h"
#undef private
#undef protected
#include "replay_util.h"

using namespace OP2Utility::Stream;

static const size_t CAP = 1u << 20;

int main(int argc, char** argv)
{
	Args a(argc, argv);
	std::string c = a.kase;
	// abstract state of the counterexample, scaled to a realisable buffer when huge
	bool isw = c.find("MemoryWriter") == 0;
	uint64_t len = a.u64("streamSize", 8), pos = isw ? a.u64(".offset", 0) : a.u64("position", 0);
	const uint64_t olen = len, opos = pos;
	uint64_t arg0 = a.u64("a_size", a.u64("a_offset", 0));
	bool wraps = (unsigned __int128)pos + arg0 > UINT64_MAX;      // the arithmetic condition of the counterexample
	uint64_t wrapped = pos + arg0;
	if (len > CAP) { uint64_t rem = len - pos; len = CAP; pos = rem > len ? 0 : len - rem; }
	if (pos > len) pos = len;
	if (wraps && !(isw && c.find("SeekBackward") != std::string::npos)) {   // nearest realisable shape: keep "pos + arg wraps to a value <= len"
		if (pos == 0) pos = 1;
		if (len == 0) len = 1;
		if (wrapped > len) wrapped = len;
		arg0 = wrapped - pos;     // mod 2^64
		a.kv.insert(a.kv.begin(), { "a_size", std::to_string(arg0) });
		a.kv.insert(a.kv.begin(), { "a_offset", std::to_string(arg0) });
	}
	std::vector<char> src(len + 1);
	for (size_t i = 0; i < src.size(); ++i) src[i] = char(i * 7 + 1);

	if (c.find("MemoryReader_") == 0) {
		MemoryReader r(src.data(), len);
		r.position = pos;
		std::string op = c.substr(13);
		uint64_t n = a.u64("a_size", a.u64("a_offset", a.u64("a_position", a.u64("a_sliceLength", 0))));
		bool threw = false;
		uint64_t before = r.Position();
		printf("state: len=%llu pos=%llu arg=%llu op=%s\n", (unsigned long long)len, (unsigned long long)pos, (unsigned long long)n, op.c_str());
		if (op == "ReadPartial") {
			std::vector<char> dst(n > CAP ? CAP : n + 1);
			size_t got = r.ReadPartial(dst.data(), n > CAP ? CAP : n);
			if (n > CAP) n = CAP;
			uint64_t want = n < len - pos ? n : len - pos;
			if (got != want) confirmed("ReadPartial returned %llu, K_R says %llu", (unsigned long long)got, (unsigned long long)want);
			if (r.Position() != before + got) confirmed("ReadPartial advanced position by %llu but delivered %llu bytes", (unsigned long long)(r.Position() - before), (unsigned long long)got);
			if (r.Position() > r.Length()) confirmed("position %llu exceeds length %llu", (unsigned long long)r.Position(), (unsigned long long)r.Length());
		}
		else if (op == "ReadImplementation") {
			// the buffer a caller hands over for a read that must fail may be tiny: the call has to throw before touching it
			bool fits = n <= len - pos;
			std::vector<char> dst(fits ? n + 1 : 1);
			try { r.Read(dst.data(), n); } catch (const std::exception&) { threw = true; }
			if (threw == fits) confirmed("Read(%llu) with %llu remaining: threw=%d", (unsigned long long)n, (unsigned long long)(len - pos), threw);
			if (r.Position() != before + (threw ? 0 : n)) confirmed("position after Read is %llu", (unsigned long long)r.Position());
		}
		else if (op == "Seek" || op == "SeekForward" || op == "SeekBackward") {
			bool ok = op == "Seek" ? n <= len : op == "SeekForward" ? n <= len - pos : n <= pos;
			uint64_t want = !ok ? before : op == "Seek" ? n : op == "SeekForward" ? before + n : before - n;
			try { if (op == "Seek") r.Seek(n); else if (op == "SeekForward") r.SeekForward(n); else r.SeekBackward(n); } catch (const std::exception&) { threw = true; }
			if (threw == ok) confirmed("%s(%llu): threw=%d but in-bounds=%d", op.c_str(), (unsigned long long)n, threw, ok);
			if (r.Position() != want) confirmed("%s(%llu): position %llu, K_R says %llu", op.c_str(), (unsigned long long)n, (unsigned long long)r.Position(), (unsigned long long)want);
		}
		else if (op == "Slice1" || op == "Slice2") {
			uint64_t s = op == "Slice1" ? pos : a.u64("a_sliceStartPosition", 0);
			bool ok = (unsigned __int128)s + n <= len;
			try {
				MemoryReader sl = op == "Slice1" ? r.Slice(n) : r.Slice(s, n);
				if (sl.Length() != n || sl.Position() != 0 || sl.streamBuffer != src.data() + s) confirmed("slice is not (src+%llu, %llu, 0)", (unsigned long long)s, (unsigned long long)n);
			} catch (const std::exception&) { threw = true; }
			if (threw == ok) confirmed("%s(%llu,%llu): threw=%d but contained=%d", op.c_str(), (unsigned long long)s, (unsigned long long)n, threw, ok);
			uint64_t want = before + ((op == "Slice1" && !threw) ? n : 0);
			if (r.Position() != want) confirmed("parent position %llu after %s, expected %llu", (unsigned long long)r.Position(), op.c_str(), (unsigned long long)want);
		}
		else { printf("unknown case\n"); return 3; }
		return finish();
	}
	if (c.find("MemoryWriter_") == 0) {
		std::vector<char> buf(len + 32, 'G');   // 16 guard bytes each side
		char* base = buf.data() + 16;
		MemoryWriter w(base, len);
		w.offset = pos;
		std::string op = c.substr(13);
		uint64_t n = a.u64("a_size", a.u64("a_offset", 0));
		bool threw = false;
		printf("state: len=%llu pos=%llu arg=%llu op=%s\n", (unsigned long long)len, (unsigned long long)pos, (unsigned long long)n, op.c_str());
		if (op == "WriteImplementation") {
			bool fits = n <= len - pos;
			std::vector<char> data(fits ? n + 1 : 1, 'D');
			try { w.Write(data.data(), n); } catch (const std::exception&) { threw = true; }
			if (threw == fits) confirmed("Write(%llu) with %llu free: threw=%d", (unsigned long long)n, (unsigned long long)(len - pos), threw);
			if (w.Position() != pos + (threw ? 0 : n)) confirmed("position after Write is %llu", (unsigned long long)w.Position());
		} else {
			if (op != "Seek") {
				// nearest realisable shape for a wrapped relative seek: keep "the wrapped target lies inside the buffer"
				if (op == "SeekBackward") {
					uint64_t oarg = a.u64("a_offset", 0);
					uint64_t t = opos - oarg;
					if (oarg > opos && t <= olen) { uint64_t t2 = t > len ? len : t; n = pos - t2; }
				}
			}
			bool ok = op == "Seek" ? n <= len : op == "SeekForward" ? n <= len - pos : n <= pos;
			uint64_t want = !ok ? pos : op == "Seek" ? n : op == "SeekForward" ? pos + n : pos - n;
			try { if (op == "Seek") w.Seek(n); else if (op == "SeekForward") w.SeekForward(n); else w.SeekBackward(n); } catch (const std::exception&) { threw = true; }
			if (threw == ok) confirmed("%s(%llu) at %llu/%llu: threw=%d but in-bounds=%d", op.c_str(), (unsigned long long)n, (unsigned long long)pos, (unsigned long long)len, threw, ok);
			if (w.Position() != want) confirmed("%s(%llu): position %llu, contract says %llu", op.c_str(), (unsigned long long)n, (unsigned long long)w.Position(), (unsigned long long)want);
		}
		for (int i = 0; i < 16; ++i) if (buf[i] != 'G' || buf[16 + len + i] != 'G') confirmed("guard byte modified");
		return finish();
	}
	printf("unknown case %s\n", c.c_str());
	return 3;
}
