// Native replay for the VOL reader (C05): crafted headers exercise the obligations the verifier reported
#include "Archive/VolFile.h"
#include "replay_util.h"
#include <fstream>
#include <cstring>
#include <unistd.h>
using namespace OP2Utility::Archive;
static void sec(std::string& f, const char* tag, uint32_t len) { f.append(tag, 4); uint32_t v = len | 0x80000000u; f.append(reinterpret_cast<char*>(&v), 4); }
static std::string build(uint32_t voliLen, const std::string& names, uint32_t count) {
	std::string body;
	sec(body, "volh", 0);
	uint32_t actual = (uint32_t)names.size(); uint32_t padded = (actual + 4 + 3) & ~3u;
	sec(body, "vols", padded); body.append(reinterpret_cast<char*>(&actual), 4); body += names; body.append(padded - actual - 4, '\0');
	sec(body, "voli", voliLen);
	for (uint32_t i = 0; i < count; ++i) { uint32_t off = 0, blk = 0x100; int32_t size = 0; uint16_t kind = 0x100; body.append((char*)&off, 4); body.append((char*)&blk, 4); body.append((char*)&size, 4); body.append((char*)&kind, 2); }
	body.append(voliLen > 14 * count ? voliLen - 14 * count : 0, '\x7f');
	std::string f; sec(f, "VOL ", (uint32_t)body.size()); f += body; return f;
}
int main(int argc, char** argv)
{
	char dir[] = "/var/tmp/op2volr.XXXXXX"; if (!mkdtemp(dir)) return 3;
	std::string path = std::string(dir) + "/t.vol";
	struct { const char* what; std::string bytes; } cases[] = {
		{ "index section length 15 (not a multiple of 14): one record is allocated, 15 bytes are read into it", build(15, std::string("a\0", 2), 1) },
		{ "one valid index entry but an empty name table: GetName(0) indexes an empty vector", build(14, "", 1) },
	};
	for (auto& c : cases) {
		{ std::ofstream o(path, std::ios::binary); o.write(c.bytes.data(), c.bytes.size()); }
		printf("case: %s\n", c.what); fflush(stdout);
		try {
			VolFile vol(path);
			for (size_t i = 0; i < vol.GetCount(); ++i) { std::string n = vol.GetName(i); printf("  name %zu = '%s'\n", i, n.c_str()); }
		} catch (const std::exception& e) { printf("  refused: %s\n", e.what()); }
	}
	unlink(path.c_str()); rmdir(dir);
	return finish();     // AddressSanitizer reports on stderr are the confirmation
}
