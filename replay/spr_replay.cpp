// Native replay for PRT / tileset header checks on the REAL classes
#include "Sprite/ArtFile.h"
#include "Sprite/SpriteLoader.h"
#include "replay_util.h"
using namespace OP2Utility;
int main(int argc, char** argv)
{
	Args a(argc, argv);
	std::string c = a.kase;
	if (c == "ArtFile_VerifyImageIndexInBounds") {
		for (size_t n : { (size_t)0, (size_t)1, (size_t)3 }) {
			ArtFile art; art.imageMetas.resize(n);
			for (size_t idx : { (size_t)0, n > 0 ? n - 1 : 0, n, n + 1 }) {
				bool threw = false;
				try { art.VerifyImageIndexInBounds(idx); } catch (const std::exception&) { threw = true; }
				bool ok = idx < n;
				if (threw == ok) confirmed("VerifyImageIndexInBounds(%zu) with %zu images: threw=%d", idx, n, threw);
			}
		}
		return finish();
	}
	printf("no native driver for case %s\n", c.c_str());
	return finish();
}
