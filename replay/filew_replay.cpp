// Native confirmation for FileWriter open flags (C14): every flag combination on an existing and on a missing file
#include "Stream/FileWriter.h"
#include "replay_util.h"
#include <fstream>
#include <cstdio>
#include <unistd.h>
using namespace OP2Utility::Stream;
static std::string slurp(const std::string& p) { std::ifstream f(p, std::ios::binary); return std::string((std::istreambuf_iterator<char>(f)), std::istreambuf_iterator<char>()); }
int main(int argc, char** argv)
{
	char dir[] = "/var/tmp/op2fw.XXXXXX"; if (!mkdtemp(dir)) return 3;
	std::string path = std::string(dir) + "/f.bin";
	for (int exists = 0; exists < 2; ++exists) for (int flags = 0; flags < 16; ++flags) {
		std::remove(path.c_str());
		if (exists) { std::ofstream f(path, std::ios::binary); f << "OLDDATA"; }
		bool e = flags & 1, n = flags & 2, t = flags & 4, a = flags & 8;
		bool mustThrow = (!e && !n) || (t && a) || (!e && exists) || (!n && !exists);
		bool threw = false;
		try { FileWriter w(path, static_cast<FileWriter::OpenMode>(flags)); w.Write("NEW", 3); } catch (const std::exception&) { threw = true; }
		std::string now = slurp(path);
		if (threw != mustThrow) confirmed("flags=%d exists=%d: threw=%d expected=%d", flags, exists, threw, mustThrow);
		if (threw && exists && now != "OLDDATA") confirmed("flags=%d: refused open altered the existing file", flags);
		if (!threw) {
			std::string want = (exists && !t) ? (a ? "OLDDATANEW" : "NEWDATA") : "NEW";
			if (now != want) confirmed("flags=%d (existing=%d,new=%d,truncate=%d,append=%d) on %s file: content \"%s\", flags say \"%s\"", flags, e, n, t, a, exists ? "an existing" : "a missing", now.c_str(), want.c_str());
		}
	}
	std::remove(path.c_str()); rmdir(dir);
	return finish();
}
