#pragma once
#include <cstdio>
#include <cstdarg>
#include <cstdint>
#include <cstdlib>
#include <string>
#include <vector>
#include <map>
#include <stdexcept>

static int g_confirmed = 0;
static void confirmed(const char* fmt, ...) {
	va_list ap; va_start(ap, fmt);
	printf("CONFIRMED: "); vprintf(fmt, ap); printf("\n");
	va_end(ap); ++g_confirmed;
}
static int finish() { if (!g_confirmed) printf("NOT-REPRODUCED\n"); return g_confirmed ? 1 : 0; }

// key=value arguments taken from the verifier's trace (first value assigned to each lvalue)
struct Args {
	std::string kase;
	std::vector<std::pair<std::string, std::string>> kv;
	Args(int argc, char** argv) {
		if (argc > 1) kase = argv[1];
		for (int i = 2; i < argc; ++i) {
			std::string s = argv[i]; auto p = s.find('=');
			if (p != std::string::npos) kv.push_back({ s.substr(0, p), s.substr(p + 1) });
		}
	}
	// lookup by exact key or by suffix (".field")
	const std::string* find(const std::string& k) const {
		for (auto& e : kv) if (e.first == k) return &e.second;
		std::string suf = (k[0] == '.') ? k : "." + k;
		for (auto& e : kv) if (e.first.size() > suf.size() && e.first.compare(e.first.size() - suf.size(), suf.size(), suf) == 0) return &e.second;
		return nullptr;
	}
	bool has(const std::string& k) const { return find(k) != nullptr; }
	uint64_t u64(const std::string& k, uint64_t def) const {
		auto* v = find(k); if (!v) return def;
		std::string s = *v;
		if (s == "true" || s == "TRUE") return 1; if (s == "false" || s == "FALSE") return 0;
		bool neg = !s.empty() && s[0] == '-';
		uint64_t r = strtoull(s.c_str() + (neg ? 1 : 0), nullptr, 0);
		return neg ? (uint64_t)(-(int64_t)r) : r;
	}
	int64_t i64(const std::string& k, int64_t def) const { return has(k) ? (int64_t)u64(k, 0) : def; }
};
