// Native replay for VOL archive creation (C20/C01): sparse files give huge logical sizes without using disk space
#define private public
#define protected public
#include "Archive/VolFile.h"
#undef private
#undef protected
#include "replay_util.h"
#include <unistd.h>
#include <fcntl.h>
#include <sys/stat.h>
using namespace OP2Utility::Archive;
static std::string mk(const std::string& dir, const char* name, uint64_t size) {
	std::string p = dir + "/" + name; int fd = open(p.c_str(), O_CREAT | O_WRONLY, 0644); if (fd < 0 || ftruncate(fd, (off_t)size) != 0) { perror("sparse"); exit(3); } close(fd); return p;
}
int main(int argc, char** argv)
{
	Args a(argc, argv);
	char dir[] = "/var/tmp/op2vol.XXXXXX"; if (!mkdtemp(dir)) return 3;
	std::string d = dir;
	if (a.kase == "PrepareHeader") {
		struct Probe { std::vector<uint64_t> sizes; };
		std::vector<Probe> probes = { { { 0x80000000ull } }, { { 3000000000ull, 3000000000ull, 16 } }, { { 10, 20 } } };
		for (auto& pr : probes) {
			VolFile::CreateVolumeInfo vi; char nm[16];
			for (size_t i = 0; i < pr.sizes.size(); ++i) { snprintf(nm, sizeof nm, "f%zu.bin", i); vi.filesToPack.push_back(mk(d, nm, pr.sizes[i])); vi.names.push_back(nm); }
			bool threw = false;
			try { VolFile::PrepareHeader(vi, d + "/out.vol"); } catch (const std::exception& e) { threw = true; printf("refused: %s\n", e.what()); }
			// the format description, in unbounded arithmetic
			unsigned __int128 stl = 0; for (auto& n : vi.names) stl += n.size() + 1;
			unsigned __int128 pst = (stl + 4 + 3) / 4 * 4, pit = ((unsigned __int128)14 * pr.sizes.size() + 3) / 4 * 4, blk = 32 + pst + pit;
			bool fits = true;
			for (size_t i = 0; i < pr.sizes.size(); ++i) { if (pr.sizes[i] > 0x7FFFFFFFull || blk > 0xFFFFFFFFull) fits = false; blk = (blk + 8 + pr.sizes[i] + 3) / 4 * 4; }
			if (!threw && !fits) {
				for (size_t i = 0; i < vi.indexEntries.size(); ++i) printf("  entry %zu: fileSize=%d dataBlockOffset=%u (size given %llu)\n", i, vi.indexEntries[i].fileSize, vi.indexEntries[i].dataBlockOffset, (unsigned long long)pr.sizes[i]);
				confirmed("PrepareHeader accepted members that do not fit the 31-bit block length / 32-bit offsets (%zu members, first size %llu)", pr.sizes.size(), (unsigned long long)pr.sizes[0]);
			}
			if (threw && fits) confirmed("PrepareHeader refused a layout that fits");
			vi.fileStreamReaders.clear();
			for (auto& f : vi.filesToPack) unlink(f.c_str());
		}
	}
	rmdir(dir);
	return finish();
}
