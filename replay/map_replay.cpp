// Native replay for the map unit on the REAL classes (DESIGN 3.6)
#define private public
#define protected public
#include "Map/Map.h"
#include "Map/MapHeader.h"
#include "Map/CellType.h"
#undef private
#undef protected
#include "Stream/MemoryReader.h"
#include "Stream/DynamicMemoryWriter.h"
#include <new>
#include "replay_util.h"
#include <cstring>

using namespace OP2Utility;

static uint32_t word(const Tile& t) { uint32_t w; std::memcpy(&w, &t, 4); return w; }

int main(int argc, char** argv)
{
	Args a(argc, argv);
	std::string c = a.kase;
	if (c == "Map_GetCellType" || c == "Map_SetCellType") {
		Map m; m.widthInTiles = 32; m.heightInTiles = 1; m.tiles.resize(32);
		std::memset(m.tiles.data(), 0, 32 * sizeof(Tile));
		int64_t first = a.i64("a_cellType", 16);
		for (int64_t k = -1; k < 34; ++k) {
			int64_t v = k < 0 ? first : k;
			if (v < -40 || v > 40) v = v < 0 ? -3 : 33;
			uint32_t before = word(m.tiles[0]);
			bool threw = false;
			try { m.SetCellType(static_cast<CellType>(v), 0, 0); } catch (const std::exception&) { threw = true; }
			bool ok = v >= 0 && v <= 31;
			if (threw == ok) confirmed("SetCellType(%lld): threw=%d but representable=%d", (long long)v, threw, ok);
			if (!ok && word(m.tiles[0]) != before) confirmed("SetCellType(%lld) refused-class value changed the tile: %08x -> %08x", (long long)v, before, word(m.tiles[0]));
			if (ok && !threw) {
				if ((word(m.tiles[0]) & 31u) != (uint32_t)v) confirmed("SetCellType(%lld): stored bits %u", (long long)v, word(m.tiles[0]) & 31u);
				long long got = (long long)static_cast<int>(m.GetCellType(0, 0));
				if (got != v) confirmed("GetCellType after SetCellType(%lld) returns %lld (serialised bits %u)", (long long)v, got, word(m.tiles[0]) & 31u);
			}
		}
		return finish();
	}
	if (c == "MapHeader_WidthInTiles" || c == "MapHeader_TileCount" || c == "Map_ReadMapBeginning") {
		// arbitrary header bytes through the real reader: lgWidthInTiles taken from the counterexample
		MapHeader h; h.lgWidthInTiles = (uint32_t)a.u64("lgWidthInTiles", 32); h.heightInTiles = (uint32_t)a.u64("heightInTiles", 1);
		printf("header: lgWidthInTiles=%u heightInTiles=%u\n", h.lgWidthInTiles, h.heightInTiles);
		std::vector<char> file(sizeof(MapHeader) + 64, 0);
		std::memcpy(file.data(), &h, sizeof h);
		try {
			Map m = Map::ReadMap(Stream::MemoryReader(file.data(), file.size()));
			unsigned __int128 want = (unsigned __int128)m.HeightInTiles() * m.WidthInTiles();
			if ((unsigned __int128)m.tiles.size() != want) confirmed("map returned with %zu tiles for %u x %u", m.tiles.size(), m.WidthInTiles(), m.HeightInTiles());
		} catch (const std::exception& e) { printf("reader threw: %s\n", e.what()); }
		// (a shift by >= 32 is reported by UBSan on stderr, which the driver treats as confirmation)
		return finish();
	}
	if (c == "Map_ctor") {
		// two default-constructed maps on storage holding different garbage must serialise identically
		alignas(Map) static unsigned char s1[sizeof(Map)], s2[sizeof(Map)];
		std::memset(s1, 0xAA, sizeof s1); std::memset(s2, 0x55, sizeof s2);
		Map* m1 = new (s1) Map(); Map* m2 = new (s2) Map();
		if (!(m1->clipRect == m2->clipRect)) confirmed("Map() leaves clipRect uninitialised: {%d,%d,%d,%d} vs {%d,%d,%d,%d}", m1->clipRect.x1, m1->clipRect.y1, m1->clipRect.x2, m1->clipRect.y2, m2->clipRect.x1, m2->clipRect.y1, m2->clipRect.x2, m2->clipRect.y2);
		Stream::DynamicMemoryWriter w1, w2; m1->Write(w1); m2->Write(w2);
		auto r1 = w1.GetReader(), r2 = w2.GetReader();
		std::vector<char> b1(r1.Length()), b2(r2.Length()); r1.Read(b1.data(), b1.size()); r2.Read(b2.data(), b2.size());
		if (b1 != b2) confirmed("two default maps serialise to different bytes");
		m1->~Map(); m2->~Map();
		return finish();
	}
	printf("unknown case %s\n", c.c_str());
	return 3;
}
