// Native replay for the indexed bitmap writer (C08): what WriteIndexed emits must be what ReadIndexed expects.
//   A bitmap with a PARTIAL palette (fewer entries than 2^bitCount, e.g. loaded from a file whose header announces 2 used colours)
//   is written with a regenerated header (used colours = 0, i.e. "full palette follows"); the palette section must then be full length.
#include "Bitmap/BitmapFile.h"
#include "Stream/DynamicMemoryWriter.h"
#include "Stream/MemoryReader.h"
#include "replay_util.h"
#include <cstring>
using namespace OP2Utility;

static void roundTrip(uint16_t bpp, int32_t w, int32_t h, size_t paletteEntries)
{
	BitmapFile b = BitmapFile::CreateIndexed(bpp, (uint32_t)w, h);
	b.palette.resize(paletteEntries);
	for (size_t i = 0; i < b.palette.size(); ++i) b.palette[i] = Color{ (uint8_t)(i + 1), (uint8_t)(2 * i + 1), (uint8_t)(3 * i + 1), 0 };
	for (size_t i = 0; i < b.pixels.size(); ++i) b.pixels[i] = (uint8_t)(i * 7 + 3);
	Stream::DynamicMemoryWriter wr;
	try { b.WriteIndexed(wr); } catch (const std::exception& e) { printf("write refused (%u bpp, %d x %d, %zu colours): %s\n", bpp, w, h, paletteEntries, e.what()); return; }
	auto bytes = wr.GetReader();
	uint64_t written = bytes.Length();
	uint64_t expectedByReader = 54 + 4 * (uint64_t(1) << bpp) + b.pixels.size();      // regenerated header: used colours 0 => the reader takes 2^bpp entries
	printf("%u bpp, %d x %d, %zu palette entries: wrote %llu bytes, a reader of the written header expects %llu\n", bpp, w, h, paletteEntries, (unsigned long long)written, (unsigned long long)expectedByReader);
	if (written != expectedByReader) confirmed("WriteIndexed wrote %llu bytes but its own header describes a %llu-byte file (palette section %zu entries, header announces %llu)", (unsigned long long)written, (unsigned long long)expectedByReader, paletteEntries, (unsigned long long)(uint64_t(1) << bpp));
	try {
		BitmapFile back = BitmapFile::ReadIndexed(bytes);
		// only the bytes inside each row's meaningful width are compared (row padding is written as zero by design)
		size_t rowBytes = ((size_t)w * bpp + 7) / 8, pitch = (rowBytes + 3) & ~size_t(3), rows = (size_t)(h < 0 ? -h : h);
		bool same = back.pixels.size() == b.pixels.size();
		for (size_t r = 0; same && r < rows; ++r) same = std::memcmp(&back.pixels[r * pitch], &b.pixels[r * pitch], rowBytes) == 0;
		if (!same) confirmed("pixel bytes inside the rows differ after write + read");
		for (size_t i = 0; i < b.palette.size() && i < back.palette.size(); ++i) if (!(back.palette[i] == b.palette[i])) { confirmed("palette entry %zu differs after write + read", i); break; }
		if (back.imageHeader.width != b.imageHeader.width || back.imageHeader.height != b.imageHeader.height || back.imageHeader.bitCount != b.imageHeader.bitCount) confirmed("geometry differs after write + read");
	} catch (const std::exception& e) { confirmed("the library cannot read back what it wrote: %s", e.what()); }
}
int main(int argc, char** argv)
{
	Args a(argc, argv);
	roundTrip(8, 5, 2, 2);        // partial palette
	roundTrip(4, 3, -3, 1);       // partial palette, top-down
	roundTrip(8, 5, 2, 256);      // sanity: full palette must round-trip
	roundTrip(1, 33, 1, 2);       // sanity: full 1-bit palette
	return finish();
}
