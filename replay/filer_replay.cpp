// Native replay for FileReader (C05/C12): a read that does not fit must throw and leave the reader usable at the old position
#include "Stream/FileReader.h"
#include "replay_util.h"
#include <fstream>
#include <unistd.h>
using namespace OP2Utility::Stream;
int main(int argc, char** argv)
{
	char dir[] = "/var/tmp/op2fr.XXXXXX"; if (!mkdtemp(dir)) return 3;
	std::string path = std::string(dir) + "/f.bin";
	{ std::ofstream f(path, std::ios::binary); f << "0123456789"; }
	{
		FileReader r(path);
		char buf[32]; r.Read(buf, 4);
		uint64_t before = r.Position();
		bool threw = false;
		try { r.Read(buf, 20); } catch (const std::exception&) { threw = true; }
		if (!threw) confirmed("Read(20) with 6 bytes left did not throw");
		uint64_t after = r.Position();
		if (after != before) confirmed("after the failed Read the position is %llu (was %llu)", (unsigned long long)after, (unsigned long long)before);
		bool threw2 = false; char c = 0;
		try { r.Seek(4); r.Read(&c, 1); } catch (const std::exception&) { threw2 = true; }
		if (threw2 || c != '4') confirmed("the reader is unusable after a failed Read: Seek(4)+Read(1) %s", threw2 ? "throws" : "returns wrong data");
	}
	unlink(path.c_str()); rmdir(dir);
	return finish();
}
