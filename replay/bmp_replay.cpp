// Native replay for the bitmap geometry checks (C08/C11) on the REAL classes
#include "Bitmap/BitmapFile.h"
#include "Bitmap/ImageHeader.h"
#include "replay_util.h"
#include <climits>
using namespace OP2Utility;
typedef unsigned __int128 U128;

static void probe(uint16_t bpp, int32_t w, int32_t h, size_t n)
{
	bool threw = false;
	try { BitmapFile::VerifyPixelSizeMatchesImageDimensionsWithPitch(bpp, w, h, n); } catch (const std::exception&) { threw = true; }
	bool ok = false;
	if (w >= 0 && h != INT32_MIN) {
		U128 rowbytes = ((U128)w * bpp + 7) / 8, pitch = ((rowbytes + 3) / 4) * 4;
		U128 ah = h < 0 ? (U128)(-(int64_t)h) : (U128)h;
		ok = (U128)n == pitch * ah;
	}
	printf("VerifyPixelSize(bpp=%u, w=%d, h=%d, size=%zu): threw=%d spec-accepts=%d\n", bpp, w, h, n, threw, ok);
	if (threw == ok) confirmed("pixel container of %zu bytes %s for width %d, height %d, %u bpp", n, threw ? "refused" : "accepted", w, h, bpp);
}
int main(int argc, char** argv)
{
	Args a(argc, argv);
	if (a.has("a_width")) probe((uint16_t)a.u64("a_bitCount", 8), (int32_t)a.i64("a_width", 0), (int32_t)a.i64("a_height", 0), (size_t)a.u64("a_pixelsWithPitchSize", 0));
	probe(8, -5, 0, 0);              // a negative width with no rows
	probe(8, 0, INT32_MIN, 0);       // |INT32_MIN| is not representable (UBSan reports the negation)
	probe(8, 5, -2, 16);             // sanity: a valid top-down bitmap must be accepted
	return finish();
}
