// Native replay for the bitmap geometry checks (C08/C11) on the REAL classes
#include "Bitmap/BitmapFile.h"
#include "Bitmap/ImageHeader.h"
#include "Sprite/TilesetLoader.h"
#include "Stream/MemoryReader.h"
#include "replay_util.h"
#include <climits>
#include <cstring>
using namespace OP2Utility;
typedef unsigned __int128 U128;

static void probe(uint16_t bpp, int32_t w, int32_t h, size_t n)
{
	bool threw = false;
	try { BitmapFile::VerifyPixelSizeMatchesImageDimensionsWithPitch(bpp, w, h, n); } catch (const std::exception&) { threw = true; }
	bool ok = false;
	if (w >= 0 && h != INT32_MIN) {
		U128 rowbytes = ((U128)w * bpp + 7) / 8, pitch = ((rowbytes + 3) / 4) * 4;
		U128 ah = h < 0 ? (U128)(-(int64_t)h) : (U128)h;
		ok = (U128)n == pitch * ah;
	}
	printf("VerifyPixelSize(bpp=%u, w=%d, h=%d, size=%zu): threw=%d spec-accepts=%d\n", bpp, w, h, n, threw, ok);
	if (threw == ok) confirmed("pixel container of %zu bytes %s for width %d, height %d, %u bpp", n, threw ? "refused" : "accepted", w, h, bpp);
}
// CreateIndexed(bitCount, width, height) and the custom tileset loader that hands it a height taken from the file.
// UBSan (-fno-sanitize-recover) aborts the process on undefined arithmetic: that abort is the confirmation.
static void createIndexedCase(const Args& a)
{
	uint16_t bpp = (uint16_t)a.u64("a_bitCount", 8); uint32_t w = (uint32_t)a.u64("a_width", 0); int32_t h = (int32_t)a.i64("a_height", INT32_MIN);
	// 1. through the loader: a PBMP tileset whose header announces the pixel height 0x80000000 (a multiple of 32), i.e. -height == INT32_MIN
	if (h == INT32_MIN) {
		std::string f; auto u32 = [&](uint32_t v) { f.append(reinterpret_cast<char*>(&v), 4); };
		f += "PBMP"; u32(1068); f += "head"; u32(0x14); u32(2); u32(32); u32(0x80000000u); u32(8); u32(8);
		f += "PPAL"; u32(1048); f += "head"; u32(4); u32(1); f += "data"; u32(1024); f.append(1024, '\0'); f += "data"; u32(0);
		printf("ReadTileset on a %zu-byte PBMP file with pixelHeight 0x80000000\n", f.size()); fflush(stdout);
		try { Stream::MemoryReader r(f.data(), f.size()); auto t = Tileset::ReadTileset(r); printf("  loaded, height %d\n", t.imageHeader.height); }
		catch (const std::exception& e) { printf("  refused: %s\n", e.what()); }
	}
	// 2. directly
	printf("CreateIndexed(%u, %u, %d)\n", bpp, w, h); fflush(stdout);
	try { auto b = BitmapFile::CreateIndexed(bpp, w, h); printf("  created, %zu pixel bytes\n", b.pixels.size()); }
	catch (const std::exception& e) { printf("  refused: %s\n", e.what()); }
}
int main(int argc, char** argv)
{
	Args a(argc, argv);
	if (a.has("a_height") && !a.has("a_pixelsWithPitchSize") && a.find("a_bitCount") && !a.has("pixelsWithPitchSize")) { createIndexedCase(a); return finish(); }
	if (a.has("a_width")) probe((uint16_t)a.u64("a_bitCount", 8), (int32_t)a.i64("a_width", 0), (int32_t)a.i64("a_height", 0), (size_t)a.u64("a_pixelsWithPitchSize", 0));
	probe(8, -5, 0, 0);              // a negative width with no rows
	probe(8, 0, INT32_MIN, 0);       // |INT32_MIN| is not representable (UBSan reports the negation)
	probe(8, 5, -2, 16);             // sanity: a valid top-down bitmap must be accepted
	return finish();
}
