// Native replay for the CLM reading side (C05/C03): crafted archives exercise the obligations of unit clmr on the real classes
//   ReadHeader : count == |index|, header + index inside the file, short files refused
//   OpenStream : exactly the recorded extent or a refusal; the archive stays usable
//   ExtractFile: 46-byte WAV header + exactly dataLength bytes
#define private public
#define protected public
#include "Archive/ClmFile.h"
#undef private
#undef protected
#include "replay_util.h"
#include <fstream>
#include <cstring>
#include <unistd.h>
#include <sys/stat.h>
using namespace OP2Utility;
using namespace OP2Utility::Archive;

static std::string header(uint32_t count) {
	std::string h("OP2 Clump File Version 1.0\x1a\0\0\0\0\0", 32);
	const unsigned char fmt[18] = { 1,0, 1,0, 0x22,0x56,0,0, 0x44,0xAC,0,0, 2,0, 16,0, 0,0 };
	h.append(reinterpret_cast<const char*>(fmt), 18);
	const char unknown[6] = { 0, 0, 0, 0, 1, 0 }; h.append(unknown, 6);
	h.append(reinterpret_cast<const char*>(&count), 4);
	return h;
}
static void entry(std::string& f, const char* name8, uint32_t off, uint32_t len) { char n[8] = { 0 }; std::strncpy(n, name8, 8); f.append(n, 8); f.append((char*)&off, 4); f.append((char*)&len, 4); }

int main(int argc, char** argv)
{
	Args a(argc, argv);
	char dir[] = "/var/tmp/op2clmr.XXXXXX"; if (!mkdtemp(dir)) return 3;
	std::string path = std::string(dir) + "/t.clm", out = std::string(dir) + "/o.wav";
	// two members: "a" = 6 bytes at 92, "b" = 4 bytes at 98; then damaged variants
	std::string good = header(2); entry(good, "a", 92, 6); entry(good, "b", 98, 4); good += "AAAAAABBBB";
	struct { const char* what; std::string bytes; } cases[] = {
		{ "valid archive", good },
		{ "index announces 3 entries, file holds 2", [&] { std::string f = header(3); entry(f, "a", 92, 6); entry(f, "b", 98, 4); return f; }() },
		{ "member extent past the end of the file", [&] { std::string f = header(2); entry(f, "a", 92, 6); entry(f, "b", 98, 400); f += "AAAAAABBBB"; return f; }() },
		{ "member offset beyond the end of the file", [&] { std::string f = header(2); entry(f, "a", 92, 6); entry(f, "b", 5000, 4); f += "AAAAAABBBB"; return f; }() },
		{ "file shorter than the header", good.substr(0, 40) },
	};
	for (auto& c : cases) {
		{ std::ofstream o(path, std::ios::binary); o.write(c.bytes.data(), c.bytes.size()); }
		printf("case: %s\n", c.what); fflush(stdout);
		try {
			ClmFile clm(path);
			if (clm.GetCount() != clm.indexEntries.size()) confirmed("count %zu != |index| %zu", clm.GetCount(), clm.indexEntries.size());
			if (60 + 16 * (uint64_t)clm.GetCount() > c.bytes.size()) confirmed("opened although header + index (%llu bytes) exceed the file (%zu)", 60ull + 16ull * clm.GetCount(), c.bytes.size());
			for (size_t i = 0; i < clm.GetCount(); ++i) {
				uint64_t off = clm.indexEntries[i].dataOffset, len = clm.indexEntries[i].dataLength;
				bool inside = off + len <= c.bytes.size();
				auto posBefore = clm.clmFileReader.Position();
				try {
					auto s = clm.OpenStream(i);
					if (!inside) confirmed("member %zu delivered although its extent [%llu, +%llu) leaves the file", i, (unsigned long long)off, (unsigned long long)len);
					if (s->Length() != len) confirmed("member %zu stream length %llu != recorded %llu", i, (unsigned long long)s->Length(), (unsigned long long)len);
					std::string got(len, '\0'); if (len) s->Read(&got[0], len);
					if (inside && got != c.bytes.substr(off, len)) confirmed("member %zu bytes differ from the file slice", i);
				} catch (const std::exception& e) { if (inside) confirmed("member %zu refused although its extent lies inside the file: %s", i, e.what()); else printf("  member %zu refused: %s\n", i, e.what()); }
				if (clm.clmFileReader.Position() != posBefore) confirmed("OpenStream moved the shared reader (%llu -> %llu)", (unsigned long long)posBefore, (unsigned long long)clm.clmFileReader.Position());
				try {
					clm.ExtractFile(i, out);
					struct stat st; if (stat(out.c_str(), &st) == 0 && (uint64_t)st.st_size != 46 + len) confirmed("extracted file of member %zu has %lld bytes, expected %llu", i, (long long)st.st_size, (unsigned long long)(46 + len));
					if (!inside) confirmed("member %zu extracted although its extent leaves the file", i);
				} catch (const std::exception& e) { if (inside) confirmed("ExtractFile(%zu) refused a member inside the file: %s", i, e.what()); }
				unlink(out.c_str());
				if (clm.GetSize(i) != len) confirmed("GetSize(%zu) = %u, recorded %llu", i, clm.GetSize(i), (unsigned long long)len);
			}
			try { clm.GetSize(clm.GetCount()); confirmed("GetSize(count) did not throw"); } catch (const std::exception&) {}
			try { clm.OpenStream(clm.GetCount()); confirmed("OpenStream(count) did not throw"); } catch (const std::exception&) {}
		} catch (const std::exception& e) { printf("  refused: %s\n", e.what()); }
	}
	unlink(path.c_str()); rmdir(dir);
	return finish();
}
