// Native confirmation for the string comparators: exhaustive search over short strings of a small alphabet
// (the verifier's counterexample for a quantified contract carries no readable strings; the bounded search
// reproduces the class of input it found).
#include "StringUtility.h"
#include "replay_util.h"
#include <string>
#include <vector>
#include <cctype>
using namespace OP2Utility;

static int key(char c) { return (c >= 'A' && c <= 'Z') ? c + 32 : c; }
static bool refLess(const std::string& a, const std::string& b) {
	size_t i = 0;
	for (; i < a.size() && i < b.size(); ++i) { if (key(a[i]) != key(b[i])) return key(a[i]) < key(b[i]); }
	return a.size() < b.size();
}
static bool refEq(const std::string& a, const std::string& b) {
	if (a.size() != b.size()) return false;
	for (size_t i = 0; i < a.size(); ++i) if (key(a[i]) != key(b[i])) return false;
	return true;
}
int main(int argc, char** argv)
{
	const char alpha[] = { 'A', 'a', 'B', 'z', 'Z', '[', '_', '0' };
	std::vector<std::string> all{ "" };
	for (size_t lo = 0, len = 1; len <= 3; ++len) { size_t hi = all.size(); for (size_t i = lo; i < hi; ++i) for (char c : alpha) all.push_back(all[i] + c); lo = hi; }
	int shown = 0;
	for (auto& a : all) for (auto& b : all) {
		bool l = StringUtility::IsEqualCaseInsensitive(a, b), e = StringUtility::IsEqual(a, b);
		if (l != refLess(a, b) && shown++ < 3) confirmed("IsEqualCaseInsensitive(\"%s\",\"%s\") = %d, lexicographic order on lower-cased keys says %d", a.c_str(), b.c_str(), l, refLess(a, b));
		if (e != refEq(a, b) && shown++ < 3) confirmed("IsEqual(\"%s\",\"%s\") = %d, key equality says %d", a.c_str(), b.c_str(), e, refEq(a, b));
	}
	std::string s = "azAZ[`{@09_";
	std::string u = StringUtility::ConvertToUpper(s);
	for (size_t i = 0; i < s.size(); ++i) { char w = (s[i] >= 'a' && s[i] <= 'z') ? s[i] - 32 : s[i]; if (u[i] != w) confirmed("ConvertToUpper('%c') = '%c'", s[i], u[i]); }
	return finish();
}
