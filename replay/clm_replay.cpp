// Native replay for the WAV chunk walk (C05): arbitrary bytes must end in an error or a result, never a hang
#define private public
#define protected public
#include "Archive/ClmFile.h"
#undef private
#undef protected
#include "Stream/MemoryReader.h"
#include "replay_util.h"
#include <csignal>
#include <cstring>
#include <unistd.h>
using namespace OP2Utility;
using namespace OP2Utility::Archive;
static void onAlarm(int) { printf("CONFIRMED: FindChunk did not return within 5 seconds (chunk length 0xFFFFFFF8 makes the 32-bit cursor wrap to the same position)\n"); fflush(stdout); _exit(1); }
int main(int argc, char** argv)
{
	std::vector<char> wav(64, 0);
	std::memcpy(&wav[0], "RIFF", 4); uint32_t sz = 56; std::memcpy(&wav[4], &sz, 4); std::memcpy(&wav[8], "WAVE", 4);
	std::memcpy(&wav[12], "junk", 4); uint32_t len = 0xFFFFFFF8u; std::memcpy(&wav[16], &len, 4);
	signal(SIGALRM, onAlarm); alarm(5);
	try {
		Stream::MemoryReader r(wav.data(), wav.size());
		uint32_t got = ClmFile::FindChunk(MakeTag("data"), r);
		printf("returned %u\n", got);
	} catch (const std::exception& e) { printf("refused: %s\n", e.what()); }
	alarm(0);
	return finish();
}
