// Native replay for CLM creation (C03): a WAV with a chunk AFTER its data chunk must still yield exactly its audio bytes
#include "Archive/ClmFile.h"
#include "replay_util.h"
#include <fstream>
#include <cstring>
#include <unistd.h>
#include <sys/stat.h>
using namespace OP2Utility::Archive;
static void u32(std::string& s, uint32_t v) { s.append(reinterpret_cast<char*>(&v), 4); }
static std::string wav(const std::string& audio, const std::string& trailer) {
	std::string body = "WAVE"; body += "fmt "; u32(body, 18);
	uint16_t f[9] = { 1, 1, 22050 & 0xFFFF, 22050 >> 16, 44100 & 0xFFFF, 44100 >> 16, 2, 16, 0 }; body.append(reinterpret_cast<char*>(f), 18);
	body += "data"; u32(body, (uint32_t)audio.size()); body += audio;
	if (!trailer.empty()) { body += "LIST"; u32(body, (uint32_t)trailer.size()); body += trailer; }
	std::string w = "RIFF"; u32(w, (uint32_t)body.size()); return w + body;
}
int main(int argc, char** argv)
{
	char dir[] = "/var/tmp/op2clm.XXXXXX"; if (!mkdtemp(dir)) return 3;
	std::string d = dir;
	{ std::ofstream o(d + "/aaa.wav", std::ios::binary); std::string w = wav("AAAAAAAA", "trailing-chunk"); o.write(w.data(), w.size()); }
	{ std::ofstream o(d + "/bbb.wav", std::ios::binary); std::string w = wav("BBBB", ""); o.write(w.data(), w.size()); }
	try {
		ClmFile::CreateArchive(d + "/t.clm", { d + "/aaa.wav", d + "/bbb.wav" });
		struct stat st; stat((d + "/t.clm").c_str(), &st);
		long want = 60 + 16 * 2 + 8 + 4;
		if (st.st_size != want) confirmed("archive is %ld bytes, the CLM layout says %ld (header 60 + index 32 + audio 8 + 4): bytes after the data chunk of aaa.wav were copied", (long)st.st_size, want);
		ClmFile clm(d + "/t.clm");
		auto s = clm.OpenStream(1); std::string got(clm.GetSize(1), '?'); s->Read(&got[0], got.size());
		if (got != "BBBB") confirmed("member 1 streams \"%s\" instead of its audio data \"BBBB\"", got.c_str());
	} catch (const std::exception& e) { printf("exception: %s\n", e.what()); }
	for (const char* f : { "/aaa.wav", "/bbb.wav", "/t.clm" }) unlink((d + f).c_str());
	rmdir(dir);
	return finish();
}
