/* kr.h -- the stream contracts K_R / K_W (DESIGN 3.4) written ONCE as clause generators.
 *
 *  The same clauses are
 *    - ENFORCED on the extracted bodies of MemoryReader / SliceReader<W> (mode E: pointers are is_fresh),
 *    - USED (call replaced by contract) wherever a parser, serialiser or wrapper calls a reader
 *      (mode U: pointers are checked r_ok / w_ok at the call site).
 *  A reader "family" F supplies the abstract view of an object s:
 *      F_BUF(s) F_LEN(s) F_POS(s)              current source pointer, length, position (expressions)
 *      F_BUF_OLD(s) F_LEN_OLD(s) F_POS_OLD(s)  the same in the pre-state
 *      F_POSLV(s)                              the lvalue(s) a position change may assign
 *      F_INV(s) F_FRAME(s) F_PRE_E(s) F_PRE_U(s)
 *  All spec arithmetic is done in 128 bits so the specification itself cannot wrap.
 *  Bytes are specified for an arbitrary relative index gk AND for an arbitrary arbitrary absolute source offset g_soff, read in each stream's own coordinates (ghosts).
 */
#ifndef OP2_KR_H
#define OP2_KR_H

#define KR_OK_E(p, n)  __CPROVER_is_fresh(p, n)
#define KR_OK_U(p, n)  ((n) == 0 || __CPROVER_rw_ok(p, n))
#define KR_ROK_E(p, n) __CPROVER_is_fresh(p, n)
#define KR_ROK_U(p, n) ((n) == 0 || __CPROVER_r_ok(p, n))

#define KR_FITS(F, s, n)      (W(n) <= W(F##_LEN(s)) - W(F##_POS(s)))
#define KR_FITS_OLD(F, s, n)  (W(n) <= W(F##_LEN_OLD(s)) - W(F##_POS_OLD(s)))
#define KR_REM(F, s)          (F##_LEN(s) - F##_POS(s))
/* the ghost source offset (in THIS stream's coordinates: F_SOFF(s), valid when F_SOFF_OK(s)) lies among the n bytes from the old position */
#define KR_SOFF_IN(F, s, n)   (F##_SOFF_OK(s) && F##_SOFF(s) >= F##_POS_OLD(s) && F##_SOFF(s) - F##_POS_OLD(s) < (uint64_t)(n))

/* the first 64 delivered bytes, spelled out index by index (fixed-size records are parsed field by field from them) */
#define KR_B(F, s, buffer, size, k) ((uint64_t)(k) >= (uint64_t)(size) || ((const char *)buffer)[k] == F##_BUF(s)[F##_POS_OLD(s) + (k)])
#define KR_B8(F, s, b, n, k) (KR_B(F, s, b, n, k) && KR_B(F, s, b, n, (k) + 1) && KR_B(F, s, b, n, (k) + 2) && KR_B(F, s, b, n, (k) + 3) && KR_B(F, s, b, n, (k) + 4) && KR_B(F, s, b, n, (k) + 5) && KR_B(F, s, b, n, (k) + 6) && KR_B(F, s, b, n, (k) + 7))
#define KR_FIRST64(F, s, b, n) (KR_B8(F, s, b, n, 0) && KR_B8(F, s, b, n, 8) && KR_B8(F, s, b, n, 16) && KR_B8(F, s, b, n, 24) && KR_B8(F, s, b, n, 32) && KR_B8(F, s, b, n, 40) && KR_B8(F, s, b, n, 48) && KR_B8(F, s, b, n, 56))

/* Read(buf, n): normal exit iff n <= len - pos; atomic on failure */
#define KR_READ(m, F, s, buffer, size) \
  __CPROVER_requires(F##_PRE_##m(s)) \
  __CPROVER_requires(KR_FITS(F, s, size) ==> KR_OK_##m(buffer, size)) \
  __CPROVER_assigns(op2_exc, F##_POSLV(s); KR_FITS(F, s, size): __CPROVER_object_upto(buffer, size)) \
  __CPROVER_ensures(op2_exc == (KR_FITS_OLD(F, s, size) ? 0 : 1)) \
  __CPROVER_ensures(F##_POS(s) == F##_POS_OLD(s) + (op2_exc ? 0 : size)) \
  __CPROVER_ensures((!op2_exc && gk < size) ==> ((const char *)buffer)[gk] == F##_BUF(s)[F##_POS_OLD(s) + gk]) \
  __CPROVER_ensures((!op2_exc && KR_SOFF_IN(F, s, size)) ==> ((const char *)buffer)[F##_SOFF(s) - F##_POS_OLD(s)] == F##_BUF(s)[F##_SOFF(s)]) \
  __CPROVER_ensures(F##_INV(s) && F##_FRAME(s))

/* Read of ONE typed object (framing projection of KR_READ, content-free): the typed assigns target lets the verifier havoc a large
   record as one value instead of byte by byte.  A logical consequence of KR_READ with size == sizeof(*buffer). */
#define KR_READ_TYPED(m, F, s, buffer, size) \
  __CPROVER_requires(F##_PRE_##m(s) && (size) == sizeof(*(buffer)) && __CPROVER_rw_ok(buffer, sizeof(*(buffer)))) \
  __CPROVER_assigns(op2_exc, F##_POSLV(s); KR_FITS(F, s, size): *(buffer)) \
  __CPROVER_ensures(op2_exc == (KR_FITS_OLD(F, s, size) ? 0 : 1)) \
  __CPROVER_ensures(F##_POS(s) == F##_POS_OLD(s) + (op2_exc ? 0 : size)) \
  __CPROVER_ensures(F##_INV(s) && F##_FRAME(s))

/* ReadPartial(buf, n): never throws, delivers m = min(n, len - pos) */
#define KR_READPARTIAL(m, F, s, buffer, size) \
  __CPROVER_requires(F##_PRE_##m(s)) \
  __CPROVER_requires(KR_OK_##m(buffer, (KR_FITS(F, s, size) ? (size) : KR_REM(F, s)))) \
  __CPROVER_assigns(F##_POSLV(s); KR_FITS(F, s, size): __CPROVER_object_upto(buffer, size); !KR_FITS(F, s, size): __CPROVER_object_upto(buffer, KR_REM(F, s))) \
  __CPROVER_ensures(__CPROVER_return_value == (KR_FITS_OLD(F, s, size) ? size : F##_LEN_OLD(s) - F##_POS_OLD(s))) \
  __CPROVER_ensures(F##_POS(s) == F##_POS_OLD(s) + __CPROVER_return_value) \
  __CPROVER_ensures(gk < __CPROVER_return_value ==> ((const char *)buffer)[gk] == F##_BUF(s)[F##_POS_OLD(s) + gk]) \
  __CPROVER_ensures(KR_SOFF_IN(F, s, __CPROVER_return_value) ==> ((const char *)buffer)[F##_SOFF(s) - F##_POS_OLD(s)] == F##_BUF(s)[F##_SOFF(s)]) \
  __CPROVER_ensures(F##_INV(s) && F##_FRAME(s) && op2_exc == 0)

#define KR_LENGTH(m, F, s) \
  __CPROVER_requires(F##_PRE_##m(s)) \
  __CPROVER_assigns() \
  __CPROVER_ensures(__CPROVER_return_value == F##_LEN(s) && op2_exc == 0)

#define KR_POSITION(m, F, s) \
  __CPROVER_requires(F##_PRE_##m(s)) \
  __CPROVER_assigns() \
  __CPROVER_ensures(__CPROVER_return_value == F##_POS(s) && op2_exc == 0)

#define KR_SEEK(m, F, s, position) \
  __CPROVER_requires(F##_PRE_##m(s)) \
  __CPROVER_assigns(op2_exc, F##_POSLV(s)) \
  __CPROVER_ensures(op2_exc == ((position <= F##_LEN(s)) ? 0 : 1)) \
  __CPROVER_ensures(F##_POS(s) == (op2_exc ? F##_POS_OLD(s) : position)) \
  __CPROVER_ensures(F##_INV(s) && F##_FRAME(s))

#define KR_SEEKFORWARD(m, F, s, offset) \
  __CPROVER_requires(F##_PRE_##m(s)) \
  __CPROVER_assigns(op2_exc, F##_POSLV(s)) \
  __CPROVER_ensures(op2_exc == (KR_FITS_OLD(F, s, offset) ? 0 : 1)) \
  __CPROVER_ensures(F##_POS(s) == F##_POS_OLD(s) + (op2_exc ? 0 : offset)) \
  __CPROVER_ensures(F##_INV(s) && F##_FRAME(s))

#define KR_SEEKBACKWARD(m, F, s, offset) \
  __CPROVER_requires(F##_PRE_##m(s)) \
  __CPROVER_assigns(op2_exc, F##_POSLV(s)) \
  __CPROVER_ensures(op2_exc == ((offset <= F##_POS_OLD(s)) ? 0 : 1)) \
  __CPROVER_ensures(F##_POS(s) == F##_POS_OLD(s) - (op2_exc ? 0 : offset)) \
  __CPROVER_ensures(F##_INV(s) && F##_FRAME(s))

/* family generator for plain (buffer, length, position) objects */
#define KR_PLAIN_PRE(m, s, B, L, P) (KR_OK_##m(s, sizeof(*(s))) && (s)->P <= (s)->L && op2_exc == 0 && KR_ROK_##m((s)->B, (s)->L))

/* ---- the abstract K_R reader used by every parser unit (Stream::Reader& / BidirectionalReader&) ---- */
typedef struct Rd { const char* src; uint64_t len; uint64_t pos; } Rd;
#define RDF_BUF(s) ((s)->src)
#define RDF_LEN(s) ((s)->len)
#define RDF_POS(s) ((s)->pos)
#define RDF_BUF_OLD(s) OLD((s)->src)
#define RDF_LEN_OLD(s) OLD((s)->len)
#define RDF_POS_OLD(s) OLD((s)->pos)
#define RDF_SOFF(s) g_soff
#define RDF_SOFF_OK(s) 1
#define RDF_POSLV(s) (s)->pos
#define RDF_INV(s) ((s)->pos <= (s)->len)
#define RDF_FRAME(s) ((s)->src == OLD((s)->src) && (s)->len == OLD((s)->len))
#define RDF_PRE_E(s) KR_PLAIN_PRE(E, s, src, len, pos)
#define RDF_PRE_U(s) KR_PLAIN_PRE(U, s, src, len, pos)
#define RD_PRE(r) RDF_PRE_E(r)

void     Rd_Read(Rd* r, void* buffer, size_t size)            KR_READ(U, RDF, r, buffer, size);
/* Rd_ReadRec8/16/24: the SAME operation and the SAME contract, with the byte clause instantiated at the indices 0..7 / 0..15 / 0..23 instead of the one
   arbitrary ghost index gk.  Because gk is arbitrary, K_R holds at every index; spelling out these instances is a logical consequence
   (universal instantiation), used where a fixed-size record is parsed field by field. */
void     Rd_ReadU32(Rd* r, void* buffer, size_t size)         KR_READ(U, RDF, r, buffer, size) __CPROVER_ensures(op2_exc || (KR_B(RDF, r, buffer, size, 0) && KR_B(RDF, r, buffer, size, 1) && KR_B(RDF, r, buffer, size, 2) && KR_B(RDF, r, buffer, size, 3)));
void     Rd_ReadRec8(Rd* r, void* buffer, size_t size)        KR_READ(U, RDF, r, buffer, size) __CPROVER_ensures(op2_exc || KR_B8(RDF, r, buffer, size, 0));
void     Rd_ReadRec16(Rd* r, void* buffer, size_t size)       KR_READ(U, RDF, r, buffer, size) __CPROVER_ensures(op2_exc || (KR_B8(RDF, r, buffer, size, 0) && KR_B8(RDF, r, buffer, size, 8)));
void     Rd_ReadRec24(Rd* r, void* buffer, size_t size)       KR_READ(U, RDF, r, buffer, size) __CPROVER_ensures(op2_exc || (KR_B8(RDF, r, buffer, size, 0) && KR_B8(RDF, r, buffer, size, 8) && KR_B8(RDF, r, buffer, size, 16)));
size_t   Rd_ReadPartial(Rd* r, void* buffer, size_t size)     KR_READPARTIAL(U, RDF, r, buffer, size);
uint64_t Rd_Length(Rd* r)                                     KR_LENGTH(U, RDF, r);
uint64_t Rd_Position(Rd* r)                                   KR_POSITION(U, RDF, r);
void     Rd_Seek(Rd* r, uint64_t position)                    KR_SEEK(U, RDF, r, position);
void     Rd_SeekForward(Rd* r, uint64_t offset)               KR_SEEKFORWARD(U, RDF, r, offset);
void     Rd_SeekBackward(Rd* r, uint64_t offset)              KR_SEEKBACKWARD(U, RDF, r, offset);

/* ---- K_W: what a SliceReader may assume of the stream it wraps (weakest common contract of
        MemoryReader and FileReader): Read/ReadPartial/SeekBackward/Length/Position as K_R;
        Seek(p) REQUIRES p <= len (a raw FileReader does not check);
        SeekForward(d) refuses when pos + d wraps past 2^64-1 and otherwise REQUIRES pos + d <= len. ---- */
typedef struct Ws { const char* src; uint64_t len; uint64_t pos; } Ws;
#define WSF_BUF(s) ((s)->src)
#define WSF_LEN(s) ((s)->len)
#define WSF_POS(s) ((s)->pos)
#define WSF_BUF_OLD(s) OLD((s)->src)
#define WSF_LEN_OLD(s) OLD((s)->len)
#define WSF_POS_OLD(s) OLD((s)->pos)
#define WSF_SOFF(s) g_soff
#define WSF_SOFF_OK(s) 1
#define WSF_POSLV(s) (s)->pos
#define WSF_INV(s) ((s)->pos <= (s)->len)
#define WSF_FRAME(s) ((s)->src == OLD((s)->src) && (s)->len == OLD((s)->len))
#define WSF_PRE_E(s) KR_PLAIN_PRE(E, s, src, len, pos)
#define WSF_PRE_U(s) KR_PLAIN_PRE(U, s, src, len, pos)

void     Ws_Read(Ws* r, void* buffer, size_t size)            KR_READ(U, WSF, r, buffer, size);
size_t   Ws_ReadPartial(Ws* r, void* buffer, size_t size)     KR_READPARTIAL(U, WSF, r, buffer, size);
uint64_t Ws_Length(Ws* r)                                     KR_LENGTH(U, WSF, r);
uint64_t Ws_Position(Ws* r)                                   KR_POSITION(U, WSF, r);
void     Ws_SeekBackward(Ws* r, uint64_t offset)              KR_SEEKBACKWARD(U, WSF, r, offset);
void     Ws_Seek(Ws* r, uint64_t position)
  __CPROVER_requires(WSF_PRE_U(r) && position <= r->len)
  __CPROVER_assigns(r->pos)
  __CPROVER_ensures(r->pos == position && op2_exc == 0 && WSF_FRAME(r));
void     Ws_SeekForward(Ws* r, uint64_t offset)
  __CPROVER_requires(WSF_PRE_U(r))
  __CPROVER_requires(W(r->pos) + W(offset) <= W(r->len) || W(r->pos) + W(offset) > W(UINT64_MAX))
  __CPROVER_assigns(op2_exc, r->pos)
  __CPROVER_ensures(op2_exc == ((W(OLD(r->pos)) + W(offset) > W(UINT64_MAX)) ? 1 : 0))
  __CPROVER_ensures(r->pos == OLD(r->pos) + (op2_exc ? 0 : offset))
  __CPROVER_ensures(WSF_INV(r) && WSF_FRAME(r));
/* copy construction: an independent stream over the same bytes; the copy's position is NOT assumed
   (a copied FileReader reopens the file at 0, a copied MemoryReader keeps the position) */
void     Ws_copy(Ws* dst, const Ws* from)
  __CPROVER_requires(__CPROVER_rw_ok(dst, sizeof(*dst)) && __CPROVER_r_ok(from, sizeof(*from)) && from->pos <= from->len)
  __CPROVER_assigns(dst->src, dst->len, dst->pos)
  __CPROVER_ensures(dst->src == from->src && dst->len == from->len && dst->pos <= dst->len);

#endif
