/* vecmodel.h -- ASSUMED contracts (A) of std::vector<uint8_t> operations on the view {data, size} (DESIGN R8/R19).
 * resize(n [, fill]): either fails (length_error / bad_alloc -> op2_exc, vector unchanged) -- and MUST fail when n exceeds
 * max_size -- or the vector has n elements, the common prefix is preserved and new elements equal the fill value.
 * The storage may move: data is a fresh object of exactly n bytes (so any access past the container is a bounds failure). */
#ifndef OP2_VECMODEL_H
#define OP2_VECMODEL_H
typedef struct vec_u8 { uint8_t* data; size_t size; } vec_u8;
#define VEC_U8_MAX ((size_t)1 << 48)            /* max_size() stand-in; also keeps view objects within CBMC's object size */
/* ghost snapshot of the arbitrary old element gk, taken by callers' contracts */
void vec_u8_resize_fill(vec_u8* v, size_t n, uint8_t fill)
  __CPROVER_requires(__CPROVER_rw_ok(v, sizeof(*v)) && op2_exc == 0 && v->size <= VEC_U8_MAX && (v->size == 0 || __CPROVER_r_ok(v->data, v->size)))
  __CPROVER_assigns(op2_exc, v->data, v->size)
  __CPROVER_ensures((n > VEC_U8_MAX) ==> op2_exc)
  __CPROVER_ensures(op2_exc ==> (v->data == OLD(v->data) && v->size == OLD(v->size)))
  __CPROVER_ensures(!op2_exc ==> (v->size == n && __CPROVER_is_fresh(v->data, n)))
  __CPROVER_ensures((!op2_exc && gk < n && gk < OLD(v->size)) ==> v->data[gk] == OLD(v->data)[gk])
  __CPROVER_ensures((!op2_exc && gk < n && gk >= OLD(v->size)) ==> v->data[gk] == fill);
void vec_u8_resize(vec_u8* v, size_t n)
  __CPROVER_requires(__CPROVER_rw_ok(v, sizeof(*v)) && op2_exc == 0 && v->size <= VEC_U8_MAX && (v->size == 0 || __CPROVER_r_ok(v->data, v->size)))
  __CPROVER_assigns(op2_exc, v->data, v->size)
  __CPROVER_ensures((n > VEC_U8_MAX) ==> op2_exc)
  __CPROVER_ensures(op2_exc ==> (v->data == OLD(v->data) && v->size == OLD(v->size)))
  __CPROVER_ensures(!op2_exc ==> (v->size == n && __CPROVER_is_fresh(v->data, n)))
  __CPROVER_ensures((!op2_exc && gk < n && gk < OLD(v->size)) ==> v->data[gk] == OLD(v->data)[gk])
  __CPROVER_ensures((!op2_exc && gk < n && gk >= OLD(v->size)) ==> v->data[gk] == 0);
void vec_u8_reserve(vec_u8* v, size_t n)
  __CPROVER_requires(__CPROVER_rw_ok(v, sizeof(*v)))
  __CPROVER_assigns()
  __CPROVER_ensures(1);
#endif
