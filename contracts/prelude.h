/* prelude.h -- shared by every extracted translation unit.
 *
 * Nothing in here is code under verification.  It provides
 *   - the exception encoding (DESIGN 3.2),
 *   - the C spellings of the few C++ library names the extractor maps 1:1,
 *   - ghost variables (never read by extracted bodies).
 */
#ifndef OP2_PRELUDE_H
#define OP2_PRELUDE_H

#include <stddef.h>
#include <stdint.h>
#include <stdbool.h>
#include <string.h>
#include <stdlib.h>
#include <limits.h>
#include <ctype.h>
#include <assert.h>

typedef unsigned __int128 U128;
typedef __int128 I128;

#define OLD(e) __CPROVER_old(e)

/* ---- exceptions -------------------------------------------------------- */
/* op2_exc == 1  <=>  a C++ exception derived from std::exception is in flight */
int op2_exc;

_Bool nondet_bool(void);

/* ---- ghost indices: unconstrained, never assigned ("arbitrary cell") ---- */
size_t gk;      /* ghost byte index            */
size_t gi;      /* ghost element / member index */
size_t gj;      /* second ghost index           */
size_t gp;      /* ghost first-difference index (C19)  */

const char* g_addr;   /* ghost: an arbitrary byte address */
size_t nondet_size_t(void);
const char* nondet_ptr(void);
#define OP2_HAVOC_GHOSTS() do { gk = nondet_size_t(); gi = nondet_size_t(); gj = nondet_size_t(); gp = nondet_size_t(); g_addr = nondet_ptr(); } while (0)

/* ---- std:: helpers mapped 1:1 ----------------------------------------- */
#define OP2_SWAP(a, b) do { __typeof__(a) op2_swap_tmp = (a); (a) = (b); (b) = op2_swap_tmp; } while (0)
#define OP2_UMAX_OF_EXPR(x) ((__typeof__(x))~(__typeof__(x))0)      /* std::numeric_limits<decltype(x)>::max(), unsigned x */
#define OP2_MAX_uint8_t  UINT8_MAX
#define OP2_MAX_uint16_t UINT16_MAX
#define OP2_MAX_uint32_t UINT32_MAX
#define OP2_MAX_uint64_t UINT64_MAX
#define OP2_MAX_size_t   SIZE_MAX
#define OP2_MAX_int32_t  INT32_MAX
#define OP2_MIN(a, b) ((a) < (b) ? (a) : (b))

/* 128-bit helpers so that specifications cannot wrap */
#define W(x) ((U128)(x))

#endif
