/* prelude.h -- shared by every extracted translation unit.
 *
 * Nothing in here is code under verification.  It provides
 *   - the exception encoding (DESIGN 3.2),
 *   - the C spellings of the few C++ library names the extractor maps 1:1,
 *   - ghost variables (never read by extracted bodies).
 */
#ifndef OP2_PRELUDE_H
#define OP2_PRELUDE_H

#include <stddef.h>
#include <stdint.h>
#include <stdbool.h>
#include <string.h>
#include <stdlib.h>
#include <limits.h>
#include <ctype.h>
#include <assert.h>

typedef unsigned __int128 U128;
typedef __int128 I128;

#define OLD(e) __CPROVER_old(e)

/* ---- exceptions -------------------------------------------------------- */
/* op2_exc == 1  <=>  a C++ exception derived from std::exception is in flight */
int op2_exc;

_Bool nondet_bool(void);

/* ---- ghost indices: unconstrained, never assigned ("arbitrary cell") ---- */
size_t gk;      /* ghost byte index            */
size_t gi;      /* ghost element / member index */
size_t gj;      /* second ghost index           */
size_t gp;      /* ghost first-difference index (C19)  */
uint64_t g_soff; /* ghost absolute source offset (stream contracts) */

const char* g_addr;   /* ghost: an arbitrary byte address */
size_t nondet_size_t(void);
const char* nondet_ptr(void);
#ifndef OP2_EXTRA_GHOSTS
#define OP2_EXTRA_GHOSTS
#endif
#define OP2_HAVOC_GHOSTS() do { OP2_EXTRA_GHOSTS; gk = nondet_size_t(); gi = nondet_size_t(); gj = nondet_size_t(); gp = nondet_size_t(); g_soff = nondet_size_t(); g_addr = nondet_ptr(); } while (0)

/* ---- std:: helpers mapped 1:1 ----------------------------------------- */
#define OP2_SWAP(a, b) do { __typeof__(a) op2_swap_tmp = (a); (a) = (b); (b) = op2_swap_tmp; } while (0)
#define OP2_UMAX_OF_EXPR(x) ((__typeof__(x))~(__typeof__(x))0)      /* std::numeric_limits<decltype(x)>::max(), unsigned x */
#define OP2_MAX_uint8_t  UINT8_MAX
#define OP2_MAX_uint16_t UINT16_MAX
#define OP2_MAX_uint32_t UINT32_MAX
#define OP2_MAX_uint64_t UINT64_MAX
#define OP2_MAX_size_t   SIZE_MAX
#define OP2_MAX_int32_t  INT32_MAX
#define OP2_MIN_int32_t  INT32_MIN
#define OP2_MIN_int64_t  INT64_MIN
#define OP2_MAX_int64_t  INT64_MAX
#define OP2_MAX_int16_t  INT16_MAX
#define OP2_MAX_int8_t   INT8_MAX
#define OP2_MIN_int16_t  INT16_MIN
#define OP2_MIN(a, b) ((a) < (b) ? (a) : (b))

/* R18 / R14 helpers (loop-free): byte equality of small fixed-size objects, membership in a small fixed array */
static inline bool op2_bytes_eq(const void* a, const void* b, size_t n)
{
  const unsigned char* x = (const unsigned char*)a; const unsigned char* y = (const unsigned char*)b;
#define OP2_BE(k) ((k) >= n || x[k] == y[k])
  return OP2_BE(0) && OP2_BE(1) && OP2_BE(2) && OP2_BE(3) && OP2_BE(4) && OP2_BE(5) && OP2_BE(6) && OP2_BE(7) && OP2_BE(8) && OP2_BE(9) && OP2_BE(10) && OP2_BE(11)
      && OP2_BE(12) && OP2_BE(13) && OP2_BE(14) && OP2_BE(15) && OP2_BE(16) && OP2_BE(17) && OP2_BE(18) && OP2_BE(19) && OP2_BE(20) && OP2_BE(21) && OP2_BE(22)
      && OP2_BE(23) && OP2_BE(24) && OP2_BE(25) && OP2_BE(26) && OP2_BE(27) && OP2_BE(28) && OP2_BE(29) && OP2_BE(30) && OP2_BE(31);
}
/* memcmp on at most 32 bytes, used only as a zero / non-zero test (the sign of the result is not modelled) */
static inline int op2_memcmp(const void* a, const void* b, size_t n) { __CPROVER_assert(n <= 32, "op2_memcmp: at most 32 bytes"); return op2_bytes_eq(a, b, n) ? 0 : 1; }
#define OP2_BYTES_EQ(a, b) (sizeof(a) <= 32 ? op2_bytes_eq(&(a), &(b), sizeof(a)) : (memcmp(&(a), &(b), sizeof(a)) == 0))
#define OP2_AC(A, v, k) ((k) < sizeof((A).e) / sizeof((A).e[0]) && (A).e[(k) < sizeof((A).e) / sizeof((A).e[0]) ? (k) : 0] == (v))
#define OP2_ARR_CONTAINS(A, v) (OP2_AC(A, v, 0) || OP2_AC(A, v, 1) || OP2_AC(A, v, 2) || OP2_AC(A, v, 3) || OP2_AC(A, v, 4) || OP2_AC(A, v, 5) || OP2_AC(A, v, 6) || OP2_AC(A, v, 7))

#define OP2_IDENTITY(x) (x)
#define OP2_TMP_ADDR(x) (&(__typeof__(x)){ x })

/* 128-bit helpers so that specifications cannot wrap */
#define W(x) ((U128)(x))

#endif
