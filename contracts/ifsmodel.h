/* ifsmodel.h -- ASSUMED model (A) of std::ifstream opened on a regular file (DESIGN 3.4):
 *   state (len, pos, fail, gcount).  read(n) past the end delivers the available bytes, moves to the end and sets failbit|eofbit;
 *   while failbit is set read/seekg are no-ops and tellg returns -1; clear() resets the flags; seekg past the end is allowed. */
#ifndef OP2_IFSMODEL_H
#define OP2_IFSMODEL_H
typedef struct Ifs { const char* src; uint64_t len; uint64_t pos; bool fail; uint64_t gcount; } Ifs;
#define OP2_IOS_end 2
#define IFS_OK(f) (__CPROVER_rw_ok(f, sizeof(*(f))) && (f)->len <= ((uint64_t)1 << 62) && (f)->fail <= 1)
#define IFS_AVAIL(f) (((f)->pos <= (f)->len) ? (f)->len - (f)->pos : 0)
#define IFS_AVAIL_OLD(f) ((OLD((f)->pos) <= OLD((f)->len)) ? OLD((f)->len) - OLD((f)->pos) : 0)
void Ifs_read(Ifs* f, char* buffer, size_t n)
  __CPROVER_requires(IFS_OK(f) && (f->fail || ((n <= IFS_AVAIL(f)) ? (n == 0 || __CPROVER_w_ok(buffer, n)) : (IFS_AVAIL(f) == 0 || __CPROVER_w_ok(buffer, IFS_AVAIL(f))))))
  __CPROVER_assigns(f->pos, f->fail, f->gcount, __CPROVER_object_whole(buffer))
  __CPROVER_ensures(OLD(f->fail) ==> (f->fail && f->pos == OLD(f->pos) && f->gcount == 0))
  __CPROVER_ensures((!OLD(f->fail) && n <= IFS_AVAIL_OLD(f)) ==> (!f->fail && f->pos == OLD(f->pos) + n && f->gcount == n))
  __CPROVER_ensures((!OLD(f->fail) && n > IFS_AVAIL_OLD(f)) ==> (f->fail && f->gcount == IFS_AVAIL_OLD(f) && f->pos == OLD(f->pos) + IFS_AVAIL_OLD(f)))
  __CPROVER_ensures(f->len == OLD(f->len) && f->fail <= 1);
int64_t Ifs_gcount(Ifs* f) __CPROVER_requires(IFS_OK(f)) __CPROVER_assigns() __CPROVER_ensures(__CPROVER_return_value == (int64_t)f->gcount);
int64_t Ifs_tellg(Ifs* f)  __CPROVER_requires(IFS_OK(f)) __CPROVER_assigns() __CPROVER_ensures(__CPROVER_return_value == (f->fail ? -1 : (int64_t)f->pos));
void Ifs_seekg(Ifs* f, uint64_t p)
  __CPROVER_requires(IFS_OK(f)) __CPROVER_assigns(f->pos)
  __CPROVER_ensures(f->pos == ((f->fail || p > ((uint64_t)1 << 62)) ? OLD(f->pos) : p));
void Ifs_seekg_end(Ifs* f, int64_t off, int dir)
  __CPROVER_requires(IFS_OK(f) && off == 0 && dir == OP2_IOS_end) __CPROVER_assigns(f->pos)
  __CPROVER_ensures(f->pos == (f->fail ? OLD(f->pos) : f->len));
void Ifs_clear(Ifs* f) __CPROVER_requires(IFS_OK(f)) __CPROVER_assigns(f->fail) __CPROVER_ensures(!f->fail);
bool Ifs_ok(Ifs* f) __CPROVER_requires(IFS_OK(f)) __CPROVER_assigns() __CPROVER_ensures(__CPROVER_return_value == !f->fail);
typedef struct FSlice { uint64_t start; uint64_t len; } FSlice;     /* a FileSliceReader: the file bytes [start, start+len) */
#endif
