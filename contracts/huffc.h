/* huffc.h -- contracts of the AdaptiveHuffmanTree accessors, written once; enforced in unit huff (mode E), used by unit lz (mode U) */
#ifndef OP2_HUFFC_H
#define OP2_HUFFC_H
#define HT_OK_E(p, n) __CPROVER_is_fresh(p, n)
#define HT_OK_U(p, n) __CPROVER_r_ok(p, n)
#define HT_OBJ(m, s) (HT_OK_##m(s, sizeof(*(s))) && op2_exc == 0 && (s)->linkOrData.size == (s)->nodeCount \
                && HT_OK_##m((s)->linkOrData.data, (size_t)(s)->linkOrData.size * sizeof(uint16_t)))
#define HTC_GETCHILDNODE(m, s, nodeIndex, bRight) \
  __CPROVER_requires(HT_OBJ(m, s)) \
  __CPROVER_assigns(op2_exc) \
  __CPROVER_ensures(op2_exc == (((nodeIndex) < (s)->nodeCount) ? 0 : 1)) \
  __CPROVER_ensures(!op2_exc ==> __CPROVER_return_value == (uint16_t)((s)->linkOrData.data[nodeIndex] + ((bRight) ? 1 : 0)))
#define HTC_ISLEAF(m, s, nodeIndex) \
  __CPROVER_requires(HT_OBJ(m, s)) \
  __CPROVER_assigns(op2_exc) \
  __CPROVER_ensures(op2_exc == (((nodeIndex) < (s)->nodeCount) ? 0 : 1)) \
  __CPROVER_ensures(!op2_exc ==> __CPROVER_return_value == ((s)->linkOrData.data[nodeIndex] >= (s)->nodeCount))
#define HTC_GETNODEDATA(m, s, nodeIndex) \
  __CPROVER_requires(HT_OBJ(m, s)) \
  __CPROVER_assigns(op2_exc) \
  __CPROVER_ensures(op2_exc == (((nodeIndex) < (s)->nodeCount) ? 0 : 1)) \
  __CPROVER_ensures(!op2_exc ==> __CPROVER_return_value == (uint16_t)((s)->linkOrData.data[nodeIndex] - (s)->nodeCount))
#define HTC_GETROOT(m, s) \
  __CPROVER_requires(HT_OK_##m(s, sizeof(*(s))) && op2_exc == 0) \
  __CPROVER_assigns() \
  __CPROVER_ensures(__CPROVER_return_value == (s)->rootNodeIndex && op2_exc == 0)
#endif
