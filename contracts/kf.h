/* kf.h -- K_F: the contract FileReader is PROVED to satisfy over the ifstream model (unit filer), in use mode and in the
 * content-free (framing) projection: Fr = (len, pos).  Read(n) succeeds iff n <= available, else throws leaving pos unchanged and
 * the reader usable; Seek is unchecked; Length/Position do not move it.  Slice(start, n) is the FileSliceReader constructor:
 * by unit slice it yields exactly [start, start+n) and throws iff start + n > len (128-bit), parent untouched. */
#ifndef OP2_KF_H
#define OP2_KF_H
typedef struct Fr { uint64_t len; uint64_t pos; } Fr;
typedef struct SliceT { uint64_t start; uint64_t len; } SliceT;      /* a member stream: the file bytes [start, start+len) */
#define FR_OK(r) (__CPROVER_rw_ok(r, sizeof(*(r))) && op2_exc == 0)
#define FR_AVAIL(r) (((r)->pos <= (r)->len) ? (r)->len - (r)->pos : 0)
#define FR_AVAIL_OLD(r) ((OLD((r)->pos) <= OLD((r)->len)) ? OLD((r)->len) - OLD((r)->pos) : 0)
void Fr_Read(Fr* r, void* buffer, size_t size)
  __CPROVER_requires(FR_OK(r) && ((size <= FR_AVAIL(r)) ==> (size == 0 || __CPROVER_w_ok(buffer, size))))
  __CPROVER_assigns(op2_exc, r->pos; ((r->pos <= r->len) && size <= r->len - r->pos): __CPROVER_object_upto(buffer, size))
  __CPROVER_ensures(op2_exc == ((size <= FR_AVAIL_OLD(r)) ? 0 : 1))
  __CPROVER_ensures(r->pos == OLD(r->pos) + (op2_exc ? 0 : size) && r->len == OLD(r->len));
uint64_t Fr_Length(Fr* r)   __CPROVER_requires(FR_OK(r)) __CPROVER_assigns() __CPROVER_ensures(__CPROVER_return_value == r->len && op2_exc == 0);
uint64_t Fr_Position(Fr* r) __CPROVER_requires(FR_OK(r)) __CPROVER_assigns() __CPROVER_ensures(__CPROVER_return_value == r->pos && op2_exc == 0);
void Fr_Seek(Fr* r, uint64_t position)
  __CPROVER_requires(FR_OK(r)) __CPROVER_assigns(r->pos) __CPROVER_ensures(r->pos == position && r->len == OLD(r->len) && op2_exc == 0);
void Fr_SeekForward(Fr* r, uint64_t offset)
  __CPROVER_requires(FR_OK(r))
  __CPROVER_assigns(op2_exc, r->pos)
  __CPROVER_ensures(op2_exc == ((W(OLD(r->pos)) + W(offset) > W(UINT64_MAX)) ? 1 : 0))
  __CPROVER_ensures(r->pos == OLD(r->pos) + (op2_exc ? 0 : offset) && r->len == OLD(r->len));
SliceT Fr_Slice2(Fr* r, uint64_t start, uint64_t n)
  __CPROVER_requires(FR_OK(r)) __CPROVER_assigns(op2_exc)
  __CPROVER_ensures(op2_exc == ((W(start) + W(n) <= W(r->len)) ? 0 : 1))
  __CPROVER_ensures(!op2_exc ==> (__CPROVER_return_value.start == start && __CPROVER_return_value.len == n));
SliceT Fr_Slice1(Fr* r, uint64_t n)
  __CPROVER_requires(FR_OK(r)) __CPROVER_assigns(op2_exc, r->pos)
  __CPROVER_ensures(op2_exc == ((W(OLD(r->pos)) + W(n) <= W(r->len)) ? 0 : 1))
  __CPROVER_ensures(r->pos == OLD(r->pos) + (op2_exc ? 0 : n) && r->len == OLD(r->len))
  __CPROVER_ensures(!op2_exc ==> (__CPROVER_return_value.start == OLD(r->pos) && __CPROVER_return_value.len == n));
#endif
