/* wr.h -- the abstract Stream::Writer contract (DESIGN 3.4): ghost write position and the arbitrary output cell */
#ifndef OP2_WR_H
#define OP2_WR_H
typedef struct Wr { uint64_t wpos; } Wr;      /* abstract writer: wpos = number of bytes written so far (ghost field) */
/* arbitrary output cell: g_woff is an arbitrary absolute output offset, g_wbyte the byte the stream holds there */
uint64_t g_woff; unsigned char g_wbyte;
#define WR_OK_E(p, n) __CPROVER_is_fresh(p, n)
#define WR_OK_U(p, n) __CPROVER_rw_ok(p, n)
#define WR_ROK_E(p, n) __CPROVER_is_fresh(p, n)
#define WR_ROK_U(p, n) ((n) == 0 || __CPROVER_r_ok(p, n))
#define WR_PRE(m, w) (WR_OK_##m(w, sizeof(*(w))) && op2_exc == 0)
/* Write(buf, n): appends exactly the n bytes; a failing writer throws and appends nothing */
#define WR_WRITE(m, w, buffer, size) \
  __CPROVER_requires(WR_PRE(m, w) && WR_ROK_##m(buffer, size) && W((w)->wpos) + W(size) <= W(UINT64_MAX)) \
  __CPROVER_assigns(op2_exc, (w)->wpos, g_wbyte) \
  __CPROVER_ensures((w)->wpos == OLD((w)->wpos) + (op2_exc ? 0 : (size))) \
  __CPROVER_ensures((!op2_exc && OLD((w)->wpos) <= g_woff && g_woff - OLD((w)->wpos) < (size)) ==> g_wbyte == ((const unsigned char*)(buffer))[g_woff - OLD((w)->wpos)]) \
  __CPROVER_ensures((op2_exc || g_woff < OLD((w)->wpos) || g_woff - OLD((w)->wpos) >= (size)) ==> g_wbyte == OLD(g_wbyte))
void Wr_WriteImplementation(Wr* w, const void* buffer, size_t size) WR_WRITE(U, w, buffer, size);
#endif
