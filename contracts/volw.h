/* volw.h: early declarations for unit volw (types only) */
#ifndef OP2_VOLW_H
#define OP2_VOLW_H
typedef Wr FileWriterT;     /* Stream::FileWriter seen as the abstract Writer it is */
#endif
