/* bsr.h -- contracts of BitStreamReader, written once; enforced in unit bsr (mode E), used by unit lz (mode U) */
#ifndef OP2_BSR_H
#define OP2_BSR_H
#define BS_OK_E(p, n) __CPROVER_is_fresh(p, n)
#define BS_OK_U(p, n) __CPROVER_rw_ok(p, n)
#define BS_ROK_E(p, n) __CPROVER_is_fresh(p, n)
#define BS_ROK_U(p, n) ((n) == 0 || __CPROVER_r_ok(p, n))
/* MSB-first bit i of the input, 0 beyond the end (the reference decoder's view of the input) */
#define BS_BIT(s, i) ((unsigned)(((i) < (s)->m_BufferBitSize) ? (((s)->m_Buffer[(i) >> 3] >> (7 - ((i) & 7))) & 1) : 0))
#define BS_B8(s, i) ((BS_BIT(s, (i)) << 7) | (BS_BIT(s, (i) + 1) << 6) | (BS_BIT(s, (i) + 2) << 5) | (BS_BIT(s, (i) + 3) << 4) \
                   | (BS_BIT(s, (i) + 4) << 3) | (BS_BIT(s, (i) + 5) << 2) | (BS_BIT(s, (i) + 6) << 1) | BS_BIT(s, (i) + 7))
/* representation invariant: the shift register mirrors the rest of the current byte */
#define BS_RI(s) (((s)->m_BufferBitSize & 7) == 0 && (s)->m_ReadBitIndex <= (s)->m_BufferBitSize + 7 \
   && (!((((s)->m_ReadBitIndex & 7) != 0) && (s)->m_ReadBitIndex < (s)->m_BufferBitSize) \
       || (s)->m_ReadBuff == (unsigned char)((s)->m_Buffer[(s)->m_ReadBitIndex >> 3] << ((s)->m_ReadBitIndex & 7))))
#define BS_SHAPE(m, s) ((s)->m_BufferBitSize <= ((size_t)1 << 40) && BS_ROK_##m((s)->m_Buffer, (s)->m_BufferBitSize >> 3) && BS_RI(s))
#define BS_PRE(m, s) (BS_OK_##m(s, sizeof(*(s))) && op2_exc == 0 && BS_SHAPE(m, s))
#define BS_FRAME(s) ((s)->m_Buffer == OLD((s)->m_Buffer) && (s)->m_BufferBitSize == OLD((s)->m_BufferBitSize))

#define BSR_READNEXTBIT(m, s) \
  __CPROVER_requires(BS_PRE(m, s)) \
  __CPROVER_assigns((s)->m_ReadBuff, (s)->m_ReadBitIndex) \
  __CPROVER_ensures(__CPROVER_return_value == BS_BIT(s, OLD((s)->m_ReadBitIndex))) \
  __CPROVER_ensures((s)->m_ReadBitIndex == OLD((s)->m_ReadBitIndex) + ((OLD((s)->m_ReadBitIndex) < (s)->m_BufferBitSize) ? 1 : 0)) \
  __CPROVER_ensures(BS_RI(s) && BS_FRAME(s) && op2_exc == 0)
#define BSR_READNEXT8BITS(m, s) \
  __CPROVER_requires(BS_PRE(m, s)) \
  __CPROVER_assigns((s)->m_ReadBuff, (s)->m_ReadBitIndex) \
  __CPROVER_ensures((unsigned)__CPROVER_return_value == BS_B8(s, OLD((s)->m_ReadBitIndex))) \
  __CPROVER_ensures((s)->m_ReadBitIndex == OLD((s)->m_ReadBitIndex) + ((OLD((s)->m_ReadBitIndex) < (s)->m_BufferBitSize) ? 8 : 0)) \
  __CPROVER_ensures(BS_RI(s) && BS_FRAME(s) && op2_exc == 0)
#define BSR_ENDOFSTREAM(m, s) \
  __CPROVER_requires(BS_PRE(m, s)) \
  __CPROVER_assigns() \
  __CPROVER_ensures(__CPROVER_return_value == ((s)->m_ReadBitIndex >= (s)->m_BufferBitSize) && op2_exc == 0)
#endif
